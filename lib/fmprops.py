"""Per-property run parameters for fmcheck (configurations, scope text, assumptions)."""

def _mx():
    import __main__ as m
    return m

# every quick run: the 8-element sub-matrix + two GNU-dialect configurations + the first NQX macro/ABI/flag configurations
def quick8(tier):
    if tier == "thorough":
        return list(_mx().QUICK_CFGS) + list(_mx().GNU_CFGS) + list(_mx().EXTRA_CFGS)
    return list(_mx().QUICK_CFGS) + list(_mx().GNU_CFGS[:2]) + list(_mx().EXTRA_CFGS[:_mx().NQX])
def quick10(tier): return quick8(tier)
def quick11x(tier): return quick8(tier)
def quick16_all(tier): return _mx().all_cfgs() if tier == 'thorough' else list(_mx().QUICK16_CFGS)
def all48_thorough(tier): return _mx().all_cfgs() if tier == "thorough" else quick8(tier)
def san_quick(tier): return list(_mx().SAN_CFGS_ALL if tier == "thorough" else _mx().SAN_CFGS_QUICK)
def none(tier): return []
def probes2(tier): return ['probe-gcc-O2-c++17-std','probe-clang-O0-c++20-std']
def cfgs4(tier): return (['gcc-O0-c++17-abacus','gcc-O2-c++17-std','clang-O1-c++17-std','clang-O3-c++17-abacus'] + list(_mx().GNU_CFGS[:2]) + list(_mx().EXTRA_CFGS[:_mx().NQX])) if tier=='quick' else quick8(tier)

COMMON_ASSUMPTIONS = [
    "x86-64 Linux, g++ 12.2 / clang++ 14 with libstdc++ 12: other targets, compilers and standard libraries are not executed",
    "the explorer (oracle) is compiled separately with g++ -O2 and never includes /repo; __int128 and libquadmath are trusted",
    "FE_TONEAREST, no -ffast-math (outside every property: the unchanged library is not NaN-safe under it); FMA contraction only where the compiler enables it by default (the -march=native configurations)",
]

PROPS = {
 "C01": dict(cfgs=all48_thorough, consteval="focus",
   scope=lambda t: "every (a,b) in S(w,r)^2 x {+,-,+=,-=} x call-site shapes {out-of-line, loop, 36 constants as either operand, self, 8 caller guards} x build configurations; complete within that bound, not over all 2^128 pairs",
   assumptions=COMMON_ASSUMPTIONS + ["a defect needing more than w significant bits in BOTH operands and no constant operand of the listed set can escape"],
   deadline={"quick": 600, "thorough": 7200}),
 "C06": dict(cfgs=quick16_all, consteval="focus",
   scope=lambda t: "six comparison operators on every pair of (S(w,r) u {+NaN,-NaN,INT64_MIN})^2; isnan/unary minus/abs on S(w,r) u both NaNs u every raw value of a dense interval around 0; complete within that bound",
   assumptions=COMMON_ASSUMPTIONS),
 "C15": dict(cfgs=quick16_all, consteval="focus",
   scope=lambda t: "floor and ceil on every member of S(w,r) with |x| < 2^47-1 and on every raw value of a dense interval around 0 (all 16-bit fraction patterns, both signs)",
   assumptions=COMMON_ASSUMPTIONS),
 "C18": dict(cfgs=quick16_all, consteval="focus",
   scope=lambda t: "x<<r and x>>r for x in S(w,r), r in {INT_MIN, INT_MIN+1, -2^30, -65536, -130..63}, plus every count of a dense range down to INT_MIN (thorough) for 16 representative x; & on S^2",
   assumptions=COMMON_ASSUMPTIONS + ["shift counts above 63 are outside the property's domain and are not executed"]),
 "C04": dict(cfgs=quick8, consteval="focus",
   scope=lambda t: "every value of int8/uint8/int16/uint16; every value of int32/uint32 (constructor in quick, all entry points in thorough); S-shaped and boundary-window values of int64/uint64; fixed->T over S u windows at every target limit u a dense interval, 8 targets x 3 entry points; implicit promotion through +,-,+= with a zero operand; round trip",
   assumptions=COMMON_ASSUMPTIONS + ["64-bit integer operands are covered only on S(w,r) and windows around 0, +-2^31, +-2^32, 2^63, 2^64-1"]),
 "C05": dict(cfgs=quick8, consteval="focus",
   scope=lambda t: "float->fixed over ALL 2^32 bit patterns (2 configurations quick, all thorough) and a structured subset everywhere; double->fixed over all exponents x mantissa edge patterns, exact ties and ulp-neighbours, boundary windows; fixed->float/double over S, format halfway points and a dense interval; fixed->double->fixed round trip",
   assumptions=COMMON_ASSUMPTIONS + ["the 2^64 double patterns are covered only on the structured subset described in coverage.bound",
      "property text conflict on (2^31-1) <= |x| < 2^31: the NaN clause is applied there, the round-trip clause below (DESIGN section 7)"]),
 "C02": dict(cfgs=quick8, consteval="focus",
   scope=lambda t: "fixed*fixed on every pair of S(w,r)^2 (operators * and *=); fixed*n, n*fixed, fixed*=n for all 8 integral types with every 8-/16-bit value and S-shaped 32/64-bit values; complete within that bound",
   assumptions=COMMON_ASSUMPTIONS),
 "C03": dict(cfgs=quick8, consteval="focus",
   scope=lambda t: "fixed/fixed on every pair of S(w,r)^2 (operators / and /=) under a trap guard; fixed/n and fixed/=n for all 8 integral types with every 8-/16-bit value and S-shaped 32/64-bit values",
   assumptions=COMMON_ASSUMPTIONS + ["'truncated' for fixed/integer is read as truncation toward zero (C++ division)"]),
 "C16": dict(cfgs=quick8, consteval="focus",
   scope=lambda t: "a in S(w,r) x operand values of each of the ten non-fixed types (every 8-bit value, every 16-bit value in thorough, S-shaped 32/64-bit values, structured float/double patterns incl. specials) x 4 operators x {a op t, t op a, a op= t}",
   assumptions=COMMON_ASSUMPTIONS + ["fixed op= double does not compile and is not part of the API", "double(a) is taken from the library's own conversion (judged by C05)"]),
 "C17": dict(cfgs=cfgs4, consteval="focus",
   scope=lambda t: "breadth-first search over operation histories from S(2,1) seeds with an alphabet of ~500 operations to depth 2 (quick) / 3 (thorough), every transition compared with the exact value model, every algebraic law instance evaluated on implementation values at every stored state; three-operand laws on the complete cube",
   assumptions=COMMON_ASSUMPTIONS + ["states are de-duplicated by raw value: sound because the library is stateless, equal values have equal futures"]),
 "C09": dict(cfgs=quick8, consteval="focus",
   scope=lambda t: "accuracy and range on the COMPLETE stated domain (all 823,549 raw x with |x| <= 2pi); exact periodicity on every residue of [0,2phi) x a k-set reaching every binade up to 2^62, plus S(w,r) x the same k",
   assumptions=COMMON_ASSUMPTIONS + ["periodicity for |x| < 2^62 is covered for the listed k only (every |k| <= 64 and four k per binade), not for all ~2^43 values of k"]),
 "C10": dict(cfgs=quick16_all, consteval="focus",
   scope=lambda t: "accuracy on the COMPLETE stated domain (all 411,775 raw x with |x| <= pi); pole, oddness and period on every residue of [0,phi) x a k-set reaching every binade up to 2^62, plus S(w,r)",
   assumptions=COMMON_ASSUMPTIONS + ["at a pole tan(x) and tan(-x) must both be NaN; the sign of the NaN sentinel is not compared (DESIGN section 7)"]),
 "C11": dict(cfgs=quick8, consteval="focus",
   scope=lambda t: "atan on every raw x of a dense prefix [0, 2^26) (quick) / [0, 2^34) (thorough) of the domain plus S(w,r) up to 2^47, negatives through exact oddness, running-maximum monotonicity; atan2 on P^2 (S-shaped, |.| < 2^47) and a scaled dense grid",
   assumptions=COMMON_ASSUMPTIONS + ["glibc double atan/atan2 is used as a fast reference with a 1e-9 guard band; anything inside the band is decided with libquadmath",
       "atan arguments in [2^34, 2^47) and atan2 pairs are covered on the S-shaped subset only"]),
 "C12": dict(cfgs=quick16_all, consteval="focus",
   scope=lambda t: "the COMPLETE domain [-1,1] (131,073 raw values) under both square-root back-ends in every configuration; NaN clause on S(w,r) u +-NaN u a dense window beyond +-1",
   assumptions=COMMON_ASSUMPTIONS),
 "C13": dict(cfgs=all48_thorough, consteval="focus",
   scope=lambda t: "sqrt_abacus, sqrt_std_math and sqrt() on every raw x of a dense prefix of [0,2^47) ([0,2^26) quick / [0,2^33) thorough), on S(w,r) up to 2^47, on ALL 11,863,283 exactly representable squares, and on negative arguments; monotonicity over the sorted enumeration",
   assumptions=COMMON_ASSUMPTIONS + ["arguments in [2^33, 2^47) are covered on S(w,r) and the exact squares only"]),
 "C14": dict(cfgs=quick8, consteval="focus",
   scope=lambda t: "hypot on every pair of P^2 (S-shaped operands with |.| < 2^47) and on threshold windows x P' in both orders, under both square-root back-ends; symmetry on every pair",
   assumptions=COMMON_ASSUMPTIONS),
 "C19": dict(cfgs=quick11x, probes=probes2, consteval="focus",
   scope=lambda t: "all 1,234 table entries; the table index of ALL 2^32 angles for both angle functions; angle values for all 2^32 angles (2 configurations quick / all thorough); sqrt_aprox on a dense prefix ([1,2^26) quick, the COMPLETE domain [1,2^37) thorough); atan_index_aprox on a dense interval, every table break point and S(w,r)",
   assumptions=COMMON_ASSUMPTIONS + ["the index probe replaces only the two non-inline table accessors declared in math.h; the inline index computation is the working tree's",
      "atan_index_aprox for |x| in [2^26, 2^47) is covered on S(w,r) and break-point windows only"]),
 "C20": dict(cfgs=quick8, consteval="focus",
   scope=lambda t: "angle_to_radians for every value of the 8/16-bit types, every value of int32/uint32 (2 configurations quick / all thorough), S-shaped 64-bit values; sin/cos/tan_angle for every integer d in [-360,360] x 10 argument types",
   assumptions=COMMON_ASSUMPTIONS + ["d = +-90, +-270 are true poles of tan and are excluded from the tan_angle accuracy clause"]),
 "C07": dict(cfgs=none, san=san_quick, probes=probes2, consteval="ub", asan=True, tsan=True,
   scope=lambda t: "every public entry point x its argument space extended by +-NaN and the extreme finite values, executed in UBSan-instrumented builds (own handlers: one callback per event) of both compilers under a trap guard; table index of ALL 2^32 angles through the index probe; dense shift counts; every float pattern (thorough)",
   assumptions=COMMON_ASSUMPTIONS + ["UB is observed through -fsanitize=undefined,float-cast-overflow (incl. bounds on std::array) and hardware traps; UB kinds these do not instrument (e.g. strict aliasing) are not observed",
      "raw INT64_MIN is neither finite nor NaN and is outside the property's domain; shift counts above 63 likewise"]),
 "C08": dict(cfgs=all48_thorough, consteval="full",
   scope=lambda t: "every entry point x its argument space executed in 8 (quick) / 48 (thorough) build configurations and compared element-wise per square-root algorithm (probed per configuration); dense windows for the series functions; abacus vs std within 1 ulp; constant evaluation of every entry point on S-shaped inputs by both compilers under three language standards, compared bit-for-bit with run time",
   assumptions=COMMON_ASSUMPTIONS + ["double / 0 and double overflow to inf are rejected by Clang's constant evaluator as a matter of language and are outside sub-check 2; the compiled table functions are not constexpr by design (README)"]),
}
