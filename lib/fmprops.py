"""Per-property run parameters for fmcheck (configurations, scope text, assumptions)."""

def _mx():
    import __main__ as m
    return m

def quick8(tier): return list(_mx().QUICK_CFGS)
def all48_thorough(tier): return _mx().all_cfgs() if tier == "thorough" else list(_mx().QUICK_CFGS)
def san_quick(tier): return list(_mx().SAN_CFGS_ALL if tier == "thorough" else _mx().SAN_CFGS_QUICK)
def none(tier): return []

COMMON_ASSUMPTIONS = [
    "x86-64 Linux, g++ 12.2 / clang++ 14 with libstdc++ 12: other targets, compilers and standard libraries are not executed",
    "the explorer (oracle) is compiled separately with g++ -O2 and never includes /repo; __int128 and libquadmath are trusted",
    "FE_TONEAREST, no -ffast-math, no FMA contraction in the shims",
]

PROPS = {
 "C01": dict(cfgs=all48_thorough,
   scope=lambda t: "every (a,b) in S(w,r)^2 x {+,-,+=,-=} x call-site shapes {out-of-line, loop, 36 constants as either operand, self, 8 caller guards} x build configurations; complete within that bound, not over all 2^128 pairs",
   assumptions=COMMON_ASSUMPTIONS + ["a defect needing more than w significant bits in BOTH operands and no constant operand of the listed set can escape"],
   deadline={"quick": 600, "thorough": 3000}),
}
