"""Constant-evaluation lane (C08 sub-check 2, and a second UB oracle for C07).

For every entry point and every input of a bounded alphabet a line
    constexpr <type> cN = W_<entry>(<literals>);
is generated; the compiler's constant evaluator is the checker. A rejected line is an input on which
constant evaluation is impossible (UB inside the evaluation, or a non-constexpr callee). Accepted values
are exported as a table, loaded back, and compared bit-for-bit with the RUN-TIME value obtained from the
shim of the same compiler (same square-root algorithm, probed).
"""
import os, re, struct, subprocess, ctypes, math, json, concurrent.futures as cf

TYPES = ["int8_t", "int16_t", "int32_t", "int64_t", "uint8_t", "uint16_t", "uint32_t", "uint64_t", "float", "double", "fixed_t", "long long", "unsigned long long", "char"]
TBITS = [8, 16, 32, 64, 8, 16, 32, 64, 0, 0, 0, 64, 64, 8]
INT_TYPES = [0, 1, 2, 3, 4, 5, 6, 7, 11, 12]
ALL_TYPES = INT_TYPES + [8, 9]
def is_int(t): return t in INT_TYPES
def is_signed(t): return t < 4 or t in (11, 13)
FX_NAN = 0x7fffffffffffffff
FX_MAX = FX_NAN - 1

UN = ["neg", "abs", "isnan", "floor", "ceil", "sin", "cos", "tan", "atan", "asin", "acos", "sqrt", "sqrt_abacus", None,
      None, None, None, "sin_angle_fx", "cos_angle_fx", "tan_angle_fx", "addeq_self", "subeq_self", "muleq_self", "diveq_self"]          # index = fm_un_op; None: not constexpr by design
UN_EXPR = {
 "neg": "(-fx(a)).v", "abs": "abs(fx(a)).v", "isnan": "(isnan(fx(a)) ? 1 : 0)", "floor": "floor(fx(a)).v", "ceil": "ceil(fx(a)).v",
 "sin": "sin(fx(a)).v", "cos": "cos(fx(a)).v", "tan": "tan(fx(a)).v", "atan": "atan(fx(a)).v", "asin": "asin(fx(a)).v", "acos": "acos(fx(a)).v",
 "sqrt": "sqrt(fx(a)).v", "sqrt_abacus": "detail::sqrt_abacus(fx(a)).v",
 "sin_angle_fx": "sin_angle(fx(a)).v", "cos_angle_fx": "cos_angle(fx(a)).v", "tan_angle_fx": "tan_angle(fx(a)).v",
}
SQRT_DEP = {"sqrt", "asin", "acos", "hypot"}
BIN = ["add", "sub", "mul", "div", "addeq", "subeq", "muleq", "diveq", "atan2", "hypot", None, "band", "eq", "ne", "lt", "le", "gt", "ge"]
BIN_EXPR = {
 "add": "(fx(a) + fx(b)).v", "sub": "(fx(a) - fx(b)).v", "mul": "(fx(a) * fx(b)).v", "div": "(fx(a) / fx(b)).v",
 "atan2": "atan2(fx(a), fx(b)).v", "hypot": "hypot(fx(a), fx(b)).v", "band": "(fx(a) & fx(b)).v",
 "eq": "(fx(a) == fx(b))", "ne": "(fx(a) != fx(b))", "lt": "(fx(a) < fx(b))", "le": "(fx(a) <= fx(b))", "gt": "(fx(a) > fx(b))", "ge": "(fx(a) >= fx(b))",
}
MIX_OPS = ["+", "-", "*", "/"]

def i64lit(v):
    v = int(v)
    if v >= 1 << 63:
        v -= 1 << 64
    if v == -(1 << 63):
        return "(-INT64_C(9223372036854775807)-1)"
    return f"INT64_C({v})"

def int_value(t, bits):
    w = TBITS[t]
    bits &= (1 << w) - 1
    if is_signed(t) and bits >= 1 << (w - 1):
        bits -= 1 << w
    return bits

def typed_lit(t, bits):
    """C++ literal of type TYPES[t] carrying the given bit pattern; None when it cannot be written as a constant."""
    if is_int(t):
        v = int_value(t, bits)
        if t == 7:
            return f"UINT64_C({v})"
        if t == 12:
            return f"{v}ULL"
        if t == 3:
            return i64lit(v)
        if t == 11:
            return "(-9223372036854775807LL-1)" if v == -(1 << 63) else f"{v}LL"
        return f"static_cast<{TYPES[t]}>({v})"
    if t == 8:
        f = struct.unpack("<f", struct.pack("<I", bits & 0xffffffff))[0]
        if math.isnan(f):
            return '__builtin_nanf("")'
        if math.isinf(f):
            return "(-__builtin_inff())" if f < 0 else "__builtin_inff()"
        return ("(" + float(f).hex() + "f)")
    d = struct.unpack("<d", struct.pack("<Q", bits & 0xffffffffffffffff))[0]
    if math.isnan(d):
        return '__builtin_nan("")'
    if math.isinf(d):
        return "(-__builtin_inf())" if d < 0 else "__builtin_inf()"
    return "(" + d.hex() + ")"

PRELUDE = r'''
#include <fixedmath/fixed_math.hpp>
#include <cstdint>
using namespace fixedmath;
typedef std::int64_t i64; typedef std::uint64_t u64;
constexpr fixed_t fx(i64 v) noexcept { return as_fixed(v); }
constexpr bool nanv(i64 v) noexcept { return v == INT64_C(9223372036854775807) || v == -INT64_C(9223372036854775807); }
constexpr bool same_or_nan(i64 a, i64 b) noexcept { return a == b || (nanv(a) && nanv(b)); }
template<typename T> constexpr u64 tb(T v) noexcept
  {
  if constexpr (std::is_same_v<T,float>) return __builtin_bit_cast(std::uint32_t, v);
  else if constexpr (std::is_same_v<T,double>) return __builtin_bit_cast(u64, v);
  else if constexpr (std::is_same_v<T,fixed_t>) return static_cast<u64>(v.v);
  else return static_cast<u64>(static_cast<i64>(v));
  }
template<int = 0> constexpr i64 W_addeq(i64 a, i64 b) { fixed_t x{fx(a)}; x += fx(b); return x.v; }
template<int = 0> constexpr i64 W_subeq(i64 a, i64 b) { fixed_t x{fx(a)}; x -= fx(b); return x.v; }
template<int = 0> constexpr i64 W_muleq(i64 a, i64 b) { fixed_t x{fx(a)}; x *= fx(b); return x.v; }
template<int = 0> constexpr i64 W_diveq(i64 a, i64 b) { fixed_t x{fx(a)}; x /= fx(b); return x.v; }
template<int = 0> constexpr i64 W_addeq_self(i64 a) { fixed_t x{fx(a)}; x += x; return x.v; }
template<int = 0> constexpr i64 W_subeq_self(i64 a) { fixed_t x{fx(a)}; x -= x; return x.v; }
template<int = 0> constexpr i64 W_muleq_self(i64 a) { fixed_t x{fx(a)}; x *= x; return x.v; }
template<int = 0> constexpr i64 W_diveq_self(i64 a) { fixed_t x{fx(a)}; x /= x; return x.v; }
template<int = 0> constexpr i64 W_shl(i64 a, int r) { return (fx(a) << r).v; }
template<int = 0> constexpr i64 W_shr(i64 a, int r) { return (fx(a) >> r).v; }
template<int HOW, typename T> constexpr i64 W_from(T n) { if constexpr (HOW==0) return fixed_t{n}.v; else if constexpr (HOW==1) { if constexpr (std::is_integral_v<T>) return integral_to_fixed(n).v; else return floating_point_to_fixed(n).v; } else return make_fixed(n).v; }
template<int HOW, typename T> constexpr u64 W_to(i64 a) { if constexpr (HOW==0) { if constexpr (std::is_integral_v<T>) return tb<T>(fixed_to_integral<T>(fx(a))); else return tb<T>(fixed_to_floating_point<T>(fx(a))); } else if constexpr (HOW==1) return tb<T>(static_cast<T>(fx(a))); else return tb<T>(fixed_to_arithmetic<T>(fx(a))); }
template<int OP, int ORD, typename T> constexpr u64 W_mix(i64 a, T t)
  {
  fixed_t x{fx(a)};
  if constexpr (ORD==0) { if constexpr (OP==0) return tb(x + t); else if constexpr (OP==1) return tb(x - t); else if constexpr (OP==2) return tb(x * t); else return tb(x / t); }
  else if constexpr (ORD==1) { if constexpr (OP==0) return tb(t + x); else if constexpr (OP==1) return tb(t - x); else if constexpr (OP==2) return tb(t * x); else return tb(t / x); }
  else { if constexpr (OP==0) x += t; else if constexpr (OP==1) x -= t; else if constexpr (OP==2) x *= t; else x /= t; return tb(x); }
  }
template<int = 0> constexpr i64 W_angle_aprox(int cosine, std::int32_t d) { return cosine ? cos_angle_aprox(d).v : sin_angle_aprox(d).v; }
template<int = 0> constexpr i64 W_sqrt_aprox(i64 a) { return sqrt_aprox(fx(a)).v; }
template<int = 0> constexpr i64 W_atan_index_aprox(i64 a) { return atan_index_aprox(fx(a)).v; }
template<int = 0> constexpr i64 W_atan_aprox(i64 a) { return atan_aprox(fx(a)).v; }
template<int = 0> constexpr i64 W_hypot_aprox(i64 a, i64 b) { return hypot_aprox(fx(a), fx(b)).v; }
template<typename T> constexpr i64 W_a2r(T d) { return angle_to_radians(d).v; }
template<int FN, typename T> constexpr i64 W_xangle(T d) { if constexpr (FN==0) return sin_angle(d).v; else if constexpr (FN==1) return cos_angle(d).v; else return tan_angle(d).v; }
'''
for _n, _e in UN_EXPR.items():
    if _n != "sqrt":
        PRELUDE += f"template<int = 0> constexpr i64 W_{_n}(i64 a) {{ return {_e}; }}\n"
for _n, _e in BIN_EXPR.items():
    if _n != "hypot":
        PRELUDE += f"template<int = 0> constexpr i64 W_{_n}(i64 a, i64 b) {{ return {_e}; }}\n"
PRELUDE += "#if __cplusplus >= 202000L || defined(FIXEDMATH_ENABLE_SQRT_ABACUS_ALGO)\n"
PRELUDE += f"template<int = 0> constexpr i64 W_sqrt(i64 a) {{ return {UN_EXPR['sqrt']}; }}\n"
PRELUDE += f"template<int = 0> constexpr i64 W_hypot(i64 a, i64 b) {{ return {BIN_EXPR['hypot']}; }}\n"
PRELUDE += "#endif\n"
PRELUDE_LINES = PRELUDE.count("\n")

def _ename(x): return x.replace(' ', '_')

class Case:
    __slots__ = ("entry", "expr", "rt", "sqrt_dep", "dbl", "desc", "res32", "optional", "mode")
    def __init__(self, entry, expr, rt, desc, sqrt_dep=False, dbl=False, res32=False, optional=False, mode="equal"):
        self.entry, self.expr, self.rt, self.desc, self.sqrt_dep, self.dbl, self.res32 = _ename(entry), expr, rt, desc, sqrt_dep, dbl, res32
        # how an accepted constant-evaluated value is judged:
        #  "equal"  bit-identical to the run-time value of the same compiler (C08: that IS the property)
        #  "oracle" the property's own pointwise oracle in the explorer (fmx --judge), independent of the run-time value
        #  "law"    the expression is a relation between several constant-evaluated calls and must evaluate to 1
        self.mode = mode
        self.optional = optional      # not constexpr by design: a rejection is not a finding, but an accepted value must equal the run-time value

def s_set(w, r, with_nan=True):
    """The same S(w,r) alphabet as the explorer (without the anchors that are irrelevant here) plus a few anchors."""
    out = set()
    for e in range(64):
        for m in range(1 << w):
            base = m << e
            if base > 1 << 63:
                continue
            for d in range(-r, r + 1):
                for v in (base + d, -base + d):
                    if -FX_MAX <= v <= FX_MAX:
                        out.add(v)
    for a in (205887, 102944, 51472, 411774, 28672, 45056, 77824, 159744, 39321, 39322, 65536 * 360, 65536 * 180, (1 << 47) - 1, ((1 << 31) - 1) << 16, 0x7fffffffffff0000, 16384 << 16):
        for d in range(-r, r + 1):
            out.add(a + d); out.add(-a + d)
    if with_nan:
        out.add(FX_NAN); out.add(-FX_NAN)
    return sorted(out)

def small_set():
    v = {0, 1, -1, 2, 65535, 65536, -65536, 65537, 98304, -98304, 3 * 65536, -7 * 65536 + 123, 205887, -205887, 102944, 51472, 39321, 39322, -39322, 65536 * 90, 65536 * 360,
         1 << 30, 1 << 31, 1 << 32, -(1 << 32), (1 << 46), (1 << 47) - 1, 1 << 47, -(1 << 47), 1 << 48, 1 << 62, -(1 << 62), FX_MAX, -FX_MAX, FX_MAX - 65536, FX_NAN, -FX_NAN,
         ((1 << 31) - 1) << 16, 0x5555555555555555, -0x2aaaaaaaaaaaaaaa, 12345678901, -98765432109876}
    return sorted(v)

def type_values(t, thorough):
    if is_int(t):
        w = TBITS[t]
        vals = {0, 1, 2, 3, 7, 90, 104, 105, 127, 128, 180, 200, 255, 256, 360, 361, 32767, 32768, 65535, 65536, 2147483647, 2147483648, 4294967295, 4294967296, (1 << 62), (1 << 63) - 1, 1 << 63, (1 << 64) - 1, (1 << 63) + 2,
                -1, -2, -90, -128, -129, -360, -361, -32768, -2147483647, -2147483648, -(1 << 63), -(1 << 62)}
        if thorough:
            vals |= {v + d for v in list(vals) for d in (-1, 1)}
        return sorted({v & ((1 << w) - 1) for v in vals})
    if t == 8:
        fs = [t / 131072.0 for t in (1, -1, 3, -3, 5, -5, 2001, -2001)] + [0.75 / 65536, -0.75 / 65536, 0.25 / 65536, -0.25 / 65536, -0.5, -128.5, 255.99609375, -32767.5] + \
             [0.0, -0.0, 1.0, -1.0, 0.5, 0.25, 1.5, -2.75, 1e-3, 3.14159274, 90.0, 360.0, 65535.99, 2147483520.0, 2147483648.0, -2147483648.0, 1e10, -1e20, 1e-30, float("inf"), float("-inf"), float("nan"), 1.401298464324817e-45, 16777216.0, 8388607.5]
        return sorted({struct.unpack("<I", struct.pack("<f", f))[0] for f in fs})
    import sys
    ties = []
    for k in (0, 1, 2, 7, 1000, 1234, 2046, 1 << 20, (1 << 31) - 1, (1 << 32) - 1, (1 << 40) + 1):
        for sgn in (1, -1):
            t = sgn * (k + 0.5) / 65536.0
            tb = struct.unpack("<Q", struct.pack("<d", t))[0]
            ties += [struct.unpack("<d", struct.pack("<Q", tb + d))[0] for d in (-2, -1, 0, 1, 2) if 0 <= tb + d < (1 << 64)]
    edges = []
    for bd in (2147483647.0, 2147483648.0, 2147483646.0, 65536.0, 32768.0, 1073741824.0, 1.0, 0.5, 1.0 / 65536, 1.0 / 131072):
        for sgn in (1.0, -1.0):
            eb = struct.unpack("<Q", struct.pack("<d", sgn * bd))[0]
            edges += [struct.unpack("<d", struct.pack("<Q", eb + d))[0] for d in (-3, -2, -1, 0, 1, 2, 3)]
    ds = ties + edges + [0.75 / 65536, -0.75 / 65536, 0.25 / 65536, -0.25 / 65536, -0.6 / 65536, -0.5, 32767.999992370605, 32767.99999999999, -32768.0 + 2 ** -30] + \
         [0.0, -0.0, 1.0, -1.0, 0.5, 1.0 / 131072, 3.0 / 131072, 1.5, -2.75, 1e-3, math.pi, 2147483646.5, 2147483647.0, 2147483648.0, -2147483647.0, 1e10, -1e20, 1e300, 1e-300, 5e-324, float("inf"), float("-inf"), float("nan"), 0.49999999999999994, 32767.999992370605]
    return sorted({struct.unpack("<Q", struct.pack("<d", d))[0] for d in ds})

def directed_mul_pairs():
    """pairs whose raw product sits at the int64 limit or at the value limit, all sign combinations"""
    out = []
    for t in ((1 << 63) - 1, 1 << 63, FX_MAX * 65536, 1 << 64, (1 << 64) + (1 << 62), (1 << 64) + (1 << 63) - 1):
        for b in (3, 7, 6939105, 65536, 98304, 1329187385653, (1 << 31) + 1, 0x5555555555555555 >> 20):
            q = t // b
            for d in (-1, 0, 1):
                for sa in (1, -1):
                    for sb in (1, -1):
                        a = sa * (q + d); bb = sb * b
                        if -FX_MAX <= a <= FX_MAX:
                            out.append((a, bb)); out.append((bb, a))
    return sorted(set(out))

def digit_words(digs=(0, 1, 0x7fffffff, 0x80000000, 0xaaaaaaaa, 0xffffffff)):
    """64-bit words composed of two 32-bit digits from a corner alphabet, both signs, finite raw values only"""
    out = set()
    for hi in digs:
        for lo in digs:
            v = (hi << 32) | lo
            if v >= 1 << 63:
                v -= 1 << 64
            for w in (v, -v):
                if -FX_MAX <= w <= FX_MAX:
                    out.add(w)
    return sorted(out)

def _un(cases, op, name, vals, dep=False):
    for a in vals:
        cases.append(Case(name, f"W_{name}({i64lit(a)})", ("un", op, a), f"{name}(raw {a})", sqrt_dep=dep, mode="oracle"))

def _bin(cases, op, name, pairs, dep=False):
    for a, b in pairs:
        cases.append(Case(name, f"W_{name}({i64lit(a)}, {i64lit(b)})", ("bin", op, a, b), f"{name}(raw {a}, raw {b})", sqrt_dep=dep, mode="oracle"))

def _mix(cases, op, t, order, a, bits, dbl=False):
    cases.append(Case(f"mixed{MIX_OPS[op]}_{TYPES[t]}", f"W_mix<{op},{order},{TYPES[t]}>({i64lit(a)}, {typed_lit(t, bits)})", ("mixed", op, t, order, a, bits),
                      f"raw {a} {MIX_OPS[op]} {TYPES[t]} bits {bits:#x} order {order}", dbl=dbl, mode="oracle"))

def _law(cases, entry, expr, desc, dep=False):
    cases.append(Case(entry, f"(({expr}) ? 1 : 0)", None, desc, sqrt_dep=dep, mode="law"))

def converts(t, bits):
    """does the operand convert to fixed_t without NaN (the premise of C16's promoted-computation clause)"""
    if is_int(t):
        return abs(int_value(t, bits)) <= 2147483647
    f = struct.unpack("<f", struct.pack("<I", bits & 0xffffffff))[0]
    return f == f and abs(f) < 2147483647.0

def focus_cases(focus, th, sqrt_available):
    """Property-focused alphabets for the constant-evaluation lane: the entry points a property is about, at the boundaries
    the property names, evaluated by the compiler's constant evaluator. Pointwise clauses are judged by the property's own
    oracle in the explorer (mode "oracle"); clauses that relate several calls are written as one boolean constant expression
    over constant-evaluated calls (mode "law"). Nothing here is compared with a run-time value: a path taken only under
    std::is_constant_evaluated() / if consteval is invisible to every run-time sweep, and a property with a tolerance does
    not promise that the two evaluation modes agree (that is C08)."""
    cases = []
    M = (1 << 64) - 1
    sm = small_set()
    edge = sorted({0, 1, -1, 2, -2, 65536, -65536, 65537, 1 << 31, -(1 << 31), 1 << 47, -(1 << 47), (1 << 62) - 1, 1 << 62, (1 << 62) + 1, -(1 << 62) + 1, -(1 << 62), -(1 << 62) - 1,
                   FX_MAX, FX_MAX - 1, FX_MAX - 65536, -FX_MAX, -FX_MAX + 1, -FX_MAX + 65536, (FX_MAX >> 1), (FX_MAX >> 1) + 1, -(FX_MAX >> 1), -(FX_MAX >> 1) - 1,
                   0x5555555555555555, -0x5555555555555555, 0x2aaaaaaaaaaaaaab, 0x7fffffffffff0000, -0x7fffffffffff0000, 12345678901, -98765432109876})
    L = i64lit
    if focus == "C12":      # the complete domain of asin / acos in constant evaluation
        if not sqrt_available:
            return []
        for op, name in ((9, "asin"), (10, "acos")):
            _un(cases, op, name, list(range(-65536, 65537)) + [65537, -65537, 65536 + 4096, -(1 << 20), 1 << 40, FX_MAX, -FX_MAX, FX_NAN, -FX_NAN], dep=True)
        return cases       # the relational clauses are evaluated on the complete value table of each translation unit: table_laws()
    if focus == "C19":      # the compiled table functions: not constexpr by design; if a tree makes them constexpr the values must satisfy the property
        for cosine in (0, 1):
            for d in list(range(-370, 731, 3)) + [65446, -65446, 1 << 20, -(1 << 20), 2147483647, -2147483647 - 1]:
                lit = "(-2147483647-1)" if d == -(1 << 31) else str(d)
                cases.append(Case("cos_angle_aprox" if cosine else "sin_angle_aprox", f"W_angle_aprox({cosine}, {lit})", ("angle_aprox", cosine, d), f"d={d}", optional=True, mode="oracle"))
        for a in s_set(2, 1, with_nan=False):
            if 0 <= a < (1 << 37):
                cases.append(Case("sqrt_aprox", f"W_sqrt_aprox({L(a)})", ("un", 14, a), f"raw {a}", optional=True, mode="oracle"))
            if abs(a) < (1 << 47):
                cases.append(Case("atan_index_aprox", f"W_atan_index_aprox({L(a)})", ("un", 15, a), f"raw {a}", optional=True, mode="oracle"))
        return cases
    if focus == "C17":      # the laws themselves, as constant expressions, at the boundaries of sum and product
        pairs = sorted(set(directed_mul_pairs()[::3]) | {(a, b) for a in edge[::2] for b in edge[::3]} | {(a, b) for a in sm[::3] for b in sm[::4]})
        for (a, b) in pairs:
            _law(cases, "add_commutes", f"W_add({L(a)}, {L(b)}) == W_add({L(b)}, {L(a)})", f"a+b == b+a, raw a={a} b={b}")
            _law(cases, "mul_commutes", f"W_mul({L(a)}, {L(b)}) == W_mul({L(b)}, {L(a)})", f"a*b == b*a, raw a={a} b={b}")
            _law(cases, "sub_is_add_neg", f"W_sub({L(a)}, {L(b)}) == W_add({L(a)}, W_neg({L(b)}))", f"a-b == a+(-b), raw a={a} b={b}")
            _law(cases, "add_then_sub", f"nanv(W_add({L(a)}, {L(b)})) || W_sub(W_add({L(a)}, {L(b)}), {L(b)}) == {L(a)}", f"(a+b)-b == a unless NaN, raw a={a} b={b}")
        for a in sorted(set(edge) | set(sm)):
            if abs(a) == FX_NAN:
                continue
            _law(cases, "sub_self", f"W_sub({L(a)}, {L(a)}) == 0", f"a-a == 0, raw a={a}")
            if abs(a) < (1 << 47):
                _law(cases, "mul_one", f"W_mul({L(a)}, 65536) == {L(a)} && W_mul(65536, {L(a)}) == {L(a)}", f"a*1 == a, raw a={a}")
                _law(cases, "mul_zero", f"W_mul({L(a)}, 0) == 0 && W_mul(0, {L(a)}) == 0", f"a*0 == 0, raw a={a}")
                _law(cases, "div_one", f"W_div({L(a)}, 65536) == {L(a)}", f"a/1 == a, raw a={a}")
                if a != 0:
                    _law(cases, "div_self", f"W_div({L(a)}, {L(a)}) == 65536", f"a/a == 1, raw a={a}")
        for a in sm[::2]:
            if abs(a) == FX_NAN:
                continue
            for n in (1, 2, 3, 7, -1, -5):
                rep = " + ".join([f"fx({L(a)})"] * abs(n))
                rep = f"({rep})" if n > 0 else f"(-({rep}))"
                _law(cases, "mul_n_is_repeated_add", f"nanv(({rep}).v) || (fx({L(a)}) * {n}).v == ({rep}).v", f"a*n equals a added n times unless NaN, raw a={a} n={n}")
                _law(cases, "mul_n_div_n", f"nanv((fx({L(a)}) * {n}).v) || ((fx({L(a)}) * {n}) / {n}).v == {L(a)}", f"(a*n)/n == a unless NaN, raw a={a} n={n}")
        return cases
    if focus == "C05":      # conversions only, denser floating values
        for t in (8, 9):
            tv = type_values(t, True)
            for how in range(3):
                for b in tv:
                    cases.append(Case(f"from_{TYPES[t]}", f"W_from<{how},{TYPES[t]}>({typed_lit(t, b)})", ("from_fp", how, t, b), f"how={how} {TYPES[t]} bits {b:#x}", mode="oracle"))
            for how in range(2):
                for a in sm + s_set(2, 1, with_nan=False)[::3]:
                    cases.append(Case(f"to_{TYPES[t]}", f"W_to<{how},{TYPES[t]}>({L(a)})", ("to_fp", how, t, a), f"how={how} raw {a} -> {TYPES[t]}", dbl=(t == 9), res32=(t == 8), mode="oracle"))
        for a in sm + s_set(2, 1, with_nan=False)[::5]:
            if abs(a) < 2147483647 * 65536:
                _law(cases, "fixed_double_fixed", f"W_from<0,double>(static_cast<double>(fx({L(a)}))) == {L(a)}", f"fixed -> double -> fixed is the identity, raw {a}")
        return cases
    if focus == "C01":
        pairs = [(a, b) for a in edge for b in edge]
        for op, name in ((0, "add"), (1, "sub"), (4, "addeq"), (5, "subeq")):
            _bin(cases, op, name, pairs)
        for name, op in (("addeq_self", 20), ("subeq_self", 21)):
            _un(cases, op, name, edge)
        return cases
    if focus == "C02":
        dw = digit_words()
        pairs = sorted(set(directed_mul_pairs()) | {(a, b) for a in dw for b in dw})
        _bin(cases, 2, "mul", pairs); _bin(cases, 6, "muleq", pairs[::3]); _un(cases, 22, "muleq_self", dw)
        for t in (3, 7, 6):
            for a in dw:
                for b in dw:
                    if t == 7 and b < 0:
                        continue
                    if t == 6 and not (0 <= b < 1 << 32):
                        continue
                    _mix(cases, 2, t, (a + b) % 3, a, b & M)
        return cases
    if focus == "C03":
        dw = digit_words()
        pairs = sorted({(a, b) for a in dw for b in dw} | {(a, b) for a in sm for b in sm if abs(a) != FX_NAN and abs(b) != FX_NAN})
        _bin(cases, 3, "div", pairs); _bin(cases, 7, "diveq", pairs[::3]); _un(cases, 23, "diveq_self", dw)
        for t in (3, 7, 2, 6):
            for a in sm:
                if abs(a) == FX_NAN:
                    continue
                for b in type_values(t, False):
                    _mix(cases, 3, t, 0, a, b)
                    if (a + b) % 2 == 0:
                        _mix(cases, 3, t, 2, a, b)
        return cases
    if focus == "C04":
        for t in INT_TYPES:
            tv = type_values(t, True)
            for how in range(3):
                for b in tv:
                    cases.append(Case(f"from_{_ename(TYPES[t])}", f"W_from<{how},{TYPES[t]}>({typed_lit(t, b)})", ("from_int", how, t, b), f"how={how} {TYPES[t]} bits {b:#x}", mode="oracle"))
            for how in range(3):
                for a in sm + [65535, -65535, -65537, 32768, -32768, (127 << 16) + 65535, (128 << 16), -(128 << 16) - 1, (255 << 16) + 1, (256 << 16), (32767 << 16) + 9, (32768 << 16), (65535 << 16) + 1, (65536 << 16), ((1 << 31) - 1) * 65536 + 65535, -((1 << 31) * 65536), -((1 << 31) * 65536) - 1]:
                    if abs(a) == FX_NAN:
                        continue
                    cases.append(Case(f"to_{_ename(TYPES[t])}", f"W_to<{how},{TYPES[t]}>({L(a)})", ("to_int", how, t, a), f"how={how} raw {a} -> {TYPES[t]}", mode="oracle"))
            for b in tv:      # implicit promotion: 0 + n, n + 0, n - 0, 0 - n, n / 1, x += n
                _mix(cases, 0, t, 0, 0, b); _mix(cases, 0, t, 1, 0, b); _mix(cases, 0, t, 2, 0, b); _mix(cases, 1, t, 1, 0, b); _mix(cases, 1, t, 0, 0, b); _mix(cases, 3, t, 1, 65536, b)
                if abs(int_value(t, b)) <= 2147483647:
                    _law(cases, f"round_trip_{_ename(TYPES[t])}", f"static_cast<{TYPES[t]}>(fixed_t{{{typed_lit(t, b)}}}) == {typed_lit(t, b)}", f"n -> fixed_t -> T, {TYPES[t]} bits {b:#x}")
        return cases
    if focus == "C06":
        su = sorted(set(s_set(3, 1)) | set(digit_words()))
        for op, name in ((0, "neg"), (1, "abs"), (2, "isnan")):
            _un(cases, op, name, [a for a in su if name == "isnan" or abs(a) != FX_NAN])
        for a in su[::3]:
            if abs(a) != FX_NAN:
                _law(cases, "neg_neg", f"W_neg(W_neg({L(a)})) == {L(a)} && W_abs(W_neg({L(a)})) == W_abs({L(a)})", f"-(-x) == x and abs(-x) == abs(x), raw x={a}")
        cm = sorted(set(sm[::2]) | {FX_NAN, -FX_NAN, FX_MAX, -FX_MAX, -(1 << 63)})
        for op, name in ((12, "eq"), (13, "ne"), (14, "lt"), (15, "le"), (16, "gt"), (17, "ge")):
            _bin(cases, op, name, [(a, b) for a in cm for b in cm])
        return cases
    if focus in ("C09", "C10"):
        P2, PHI = 411774, 205887
        if focus == "C09":
            xs = sorted(set(range(-411774, 411775, 1499)) | {k * 51472 + d for k in range(-8, 9) for d in (-1, 0, 1)})
            _un(cases, 5, "sin", xs); _un(cases, 6, "cos", xs)
            kmax = (1 << 62) // P2 - 1
            for r in (0, 1, 258, 51471, 102944, 205887, 300000, 411773, -5, -102944):
                for k in (1, -1, 7, -64, 1 << 20, -(1 << 33), (1 << 43) + 1, kmax, kmax - 1, -kmax):
                    x = r + k * P2
                    if abs(x) < (1 << 62):
                        _un(cases, 5, "sin", [x]); _un(cases, 6, "cos", [x])
                        _law(cases, "sin_periodic", f"W_sin({L(x)}) == W_sin({L(r)})", f"sin(x + k*2phi) == sin(x), raw x={r} k={k}")
                        _law(cases, "cos_periodic", f"W_cos({L(x)}) == W_cos({L(r)})", f"cos(x + k*2phi) == cos(x), raw x={r} k={k}")
        else:
            xs = sorted(set(range(-205887, 205888, 997)) | {k * 51472 + d for k in range(-4, 5) for d in (-2, -1, 0, 1, 2)} | {102943, 102944, -102943, -102944})
            _un(cases, 7, "tan", xs)
            for x in xs[::4] + [102944, 102944 + PHI, 3 * 102944 + 7 * PHI]:
                _law(cases, "tan_odd", f"W_tan({L(-x)}) == -W_tan({L(x)}) || (nanv(W_tan({L(x)})) && nanv(W_tan({L(-x)})))", f"tan(-x) == -tan(x), raw x={x}")
            kmax = (1 << 62) // PHI - 1
            for r in (0, 1, 51472, 102943, 102944, 150000, 205886):
                for k in (1, 7, 64, 1 << 20, 1 << 33, (1 << 44) + 1, kmax, kmax - 1):
                    x = r + k * PHI
                    if x < (1 << 62):
                        _un(cases, 7, "tan", [x])
                        _law(cases, "tan_periodic", f"W_tan({L(x)}) == W_tan({L(r)}) || (nanv(W_tan({L(x)})) && nanv(W_tan({L(r)})))", f"tan(x + k*phi) == tan(x), raw x={r} k={k}")
        return cases
    if focus == "C11":
        xs = [a for a in s_set(3, 1, with_nan=False) if abs(a) < (1 << 47)]
        _un(cases, 8, "atan", xs)
        for x in xs[::5]:
            _law(cases, "atan_odd", f"W_atan({L(-x)}) == -W_atan({L(x)})", f"atan(-x) == -atan(x), raw x={x}")
        ps = [a for a in s_set(1, 0, with_nan=False) if abs(a) < (1 << 47)][::2] + [28672, 45056, 77824, 159744, -28672, -159744]
        _bin(cases, 8, "atan2", [(y, x) for y in ps for x in ps])
        return cases
    if focus in ("C13", "C14"):
        if focus == "C13":
            xs = sorted({a for a in s_set(3, 1, with_nan=False) if -(1 << 20) < a < (1 << 47)} | {m * m for m in list(range(0, 4000, 37)) + [65535, 65536, 65537, 1 << 20, 11863282]} | {m * m + d for m in (255, 256, 46340, 1 << 20, 11863282) for d in (-1, 1)})
            xs = [x for x in xs if x < (1 << 47)]
            _un(cases, 12, "sqrt_abacus", xs)
            pos = [x for x in xs if x >= 0]
            for x in pos[::4]:
                _law(cases, "sqrt_abacus_monotone", f"detail::sqrt_abacus(fx({L(x)})).v <= detail::sqrt_abacus(fx({L(x + 1)})).v", f"sqrt(x) <= sqrt(x + 1ulp), raw x={x}")
            if sqrt_available:
                _un(cases, 11, "sqrt", xs, dep=True)
                for x in pos[::4]:
                    _law(cases, "sqrt_monotone", f"W_sqrt({L(x)}) <= W_sqrt({L(x + 1)})", f"sqrt(x) <= sqrt(x + 1ulp), raw x={x}", dep=True)
        elif sqrt_available:
            ps = sorted({a for a in s_set(1, 1, with_nan=False) if abs(a) < (1 << 46)})[::6] + [3 * 65536, 4 * 65536, -5 * 65536, 12 * 65536, (16384 << 16) - 1, 16384 << 16, (16384 << 16) + 1]
            _bin(cases, 9, "hypot", [(a, b) for a in ps for b in ps], dep=True)
            for a in ps[::3]:
                for b in ps[::4]:
                    _law(cases, "hypot_symmetric", f"W_hypot({L(a)}, {L(b)}) == W_hypot({L(b)}, {L(a)}) && W_hypot({L(a)}, {L(b)}) == W_hypot({L(abs(a))}, {L(abs(b))})", f"hypot(a,b) == hypot(b,a) == hypot(|a|,|b|), raw a={a} b={b}", dep=True)
        return cases
    if focus == "C15":
        lim = ((1 << 47) - 1) << 16
        xs = [a for a in s_set(3, 2, with_nan=False) if abs(a) < lim]
        _un(cases, 3, "floor", xs); _un(cases, 4, "ceil", xs)
        for x in xs[::3]:
            _law(cases, "ceil_is_neg_floor_neg", f"W_ceil({L(x)}) == W_neg(W_floor(W_neg({L(x)})))", f"ceil(x) == -floor(-x), raw x={x}")
        return cases
    if focus == "C16":
        dw = digit_words()
        BN = ["add", "sub", "mul", "div"]
        for t in ALL_TYPES:
            tv = type_values(t, False)
            if t in (3, 7, 11, 12):
                tv = sorted(set(tv) | {w & M for w in dw})
            if t in (2, 6):
                tv = sorted(set(tv) | {w & 0xffffffff for w in dw})
            av = sorted(set(sm[::5]) | (set(dw[::5]) if t in (3, 7, 6) else set()))
            av = [a for a in av if abs(a) != FX_NAN]
            for op in range(4):
                for k, a in enumerate(av):
                    for j, b in enumerate(tv):
                        order = (k + j + op) % 3
                        if t == 9:
                            if order == 2:
                                order = 0
                            _mix(cases, op, t, order, a, b, dbl=True)
                            continue
                        exact = is_int(t) and (op == 2 or (op == 3 and order != 1))
                        if exact:
                            _mix(cases, op, t, order, a, b)
                        elif converts(t, b):
                            lit = typed_lit(t, b)
                            rhs = f"W_{BN[op]}(W_from<0,{TYPES[t]}>({lit}), {L(a)})" if order == 1 else f"W_{BN[op]}({L(a)}, W_from<0,{TYPES[t]}>({lit}))"
                            _law(cases, f"mixed{MIX_OPS[op]}_{TYPES[t]}_equals_promoted", f"W_mix<{op},{order},{TYPES[t]}>({L(a)}, {lit}) == static_cast<u64>({rhs})", f"raw {a} {MIX_OPS[op]} {TYPES[t]} bits {b:#x} order {order} equals the promoted computation")
                        if order != 2 and (k + j) % 4 == 0:
                            lit = typed_lit(t, b)
                            _law(cases, f"compound{MIX_OPS[op]}_{TYPES[t]}", f"W_mix<{op},2,{TYPES[t]}>({L(a)}, {lit}) == W_mix<{op},0,{TYPES[t]}>({L(a)}, {lit})", f"a op= t leaves a equal to a op t: raw {a} {MIX_OPS[op]} {TYPES[t]} bits {b:#x}")
        return cases
    if focus == "C18":
        for left in (0, 1):
            nm = "shl" if left else "shr"
            for r in range(0, 64):
                q = FX_MAX >> r
                xs = {0, 1, -1, q, q + 1, q - 1, -q, -q - 1, -q + 1, (1 << 62) >> r, -((1 << 62) >> r), 0x5555555555555555 >> (r % 5), -(0x5555555555555555 >> (r % 7)), FX_MAX, -FX_MAX, 65536, -65537}
                for a in sorted(xs):
                    if -FX_MAX <= a <= FX_MAX:
                        cases.append(Case(nm, f"W_{nm}({L(a)}, {r})", ("shift", left, a, r), f"raw {a} {'<<' if left else '>>'} {r}", mode="oracle"))
            for r in (-(1 << 31), -(1 << 31) + 1, -65536, -64, -63, -33, -32, -31, -2, -1):
                for a in (0, 1, -1, 65536, FX_MAX, -FX_MAX):
                    cases.append(Case(nm, f"W_{nm}({L(a)}, {r if r != -(1 << 31) else '(-2147483647-1)'})", ("shift", left, a, r), f"raw {a} {'<<' if left else '>>'} {r}", mode="oracle"))
        cm = sm[::2]
        _bin(cases, 11, "band", [(a, b) for a in cm for b in cm])
        return cases
    if focus == "C20":
        for t in ALL_TYPES:
            tv = set(type_values(t, True))
            if is_int(t):
                tv |= {d & ((1 << TBITS[t]) - 1) for d in range(-360, 361, 7) if is_signed(t) or d >= 0}
                if TBITS[t] == 16:
                    tv |= set(range(0, 65536, 97))
                if TBITS[t] == 8:
                    tv = set(range(256))
            elif t == 8:
                tv |= {struct.unpack("<I", struct.pack("<f", float(d)))[0] for d in range(-360, 361, 7)}
            tv = sorted(tv)
            if is_int(t):
                for b in tv:
                    cases.append(Case(f"angle_to_radians_{TYPES[t]}", f"W_a2r<{TYPES[t]}>({typed_lit(t, b)})", ("a2r", t, b), f"{TYPES[t]} bits {b:#x}", mode="oracle"))
            if t != 9:
                for fn in range(3):
                    for b in tv:
                        cases.append(Case(f"xangle{fn}_{TYPES[t]}", f"W_xangle<{fn},{TYPES[t]}>({typed_lit(t, b)})", ("xangle", fn, t, b), f"fn={fn} {TYPES[t]} bits {b:#x}", mode="oracle"))
                    for d in range(-360, 361, 15):
                        if is_int(t) and not (-(1 << (TBITS[t] - 1)) <= d < (1 << (TBITS[t] - 1)) if is_signed(t) else 0 <= d < (1 << TBITS[t])):
                            continue
                        lit = typed_lit(t, d & ((1 << TBITS[t]) - 1)) if is_int(t) else f"{float(d)}f"
                        _law(cases, f"xangle{fn}_{TYPES[t]}_agrees_with_int32", f"same_or_nan(W_xangle<{fn},{TYPES[t]}>({lit}), W_xangle<{fn},int32_t>(static_cast<int32_t>({d})))", f"fn={fn} d={d}: {TYPES[t]} and int32_t arguments give the same result")
        for fn, (op, name) in enumerate(((17, "sin_angle_fx"), (18, "cos_angle_fx"), (19, "tan_angle_fx"))):
            _un(cases, op, name, [d * 65536 for d in range(-360, 361, 3)])
            for d in range(-360, 361, 15):
                _law(cases, f"xangle{fn}_fixed_agrees_with_int32", f"same_or_nan(W_{name}({L(d * 65536)}), W_xangle<{fn},int32_t>(static_cast<int32_t>({d})))", f"fn={fn} d={d}: fixed_t and int32_t arguments give the same result")
        return cases
    raise ValueError("no constant-evaluation focus for " + str(focus))

def gen_cases(tier, sqrt_available, focus=None):
    th = tier == "thorough"
    if focus is not None:
        return focus_cases(focus, th, sqrt_available)
    cases = []
    # the property-focused alphabets, here in "equal" mode (accepted as a constant expression AND bit-identical to run time):
    # a subset in the quick tier, all of them (the complete asin/acos domain thinned to every 8th value) in the thorough tier
    seen = set()
    for f in (("C01", "C02", "C03", "C04", "C05", "C06", "C09", "C10", "C11", "C12", "C13", "C14", "C15", "C16", "C18", "C20") if th else ("C01", "C06", "C09", "C10", "C13", "C15", "C18")):
        fc = [cs for cs in focus_cases(f, th, sqrt_available) if cs.mode == "oracle"]
        if f == "C12":
            fc = fc[::8]
        for cs in fc:
            if cs.expr not in seen:
                seen.add(cs.expr); cs.mode = "equal"; cases.append(cs)
    su = s_set(3, 1) if th else s_set(2, 1)
    sb = s_set(1, 0) if th else small_set()
    sm = small_set()[::2] if not th else small_set()
    for op, name in enumerate(UN):
        if name is None:
            continue
        dep = name in SQRT_DEP
        if dep and not sqrt_available:
            continue
        if name == "sqrt_abacus":
            dep = False
        for a in su:
            cases.append(Case(name, f"W_{name}({i64lit(a)})", ("un", op, a), f"{name}(raw {a})", sqrt_dep=dep))
    for op, name in enumerate(BIN):
        if name is None:
            continue
        dep = name in SQRT_DEP
        if dep and not sqrt_available:
            continue
        for a in sb:
            for b in sb:
                cases.append(Case(name, f"W_{name}({i64lit(a)}, {i64lit(b)})", ("bin", op, a, b), f"{name}(raw {a}, raw {b})", sqrt_dep=dep))
    for (a, b) in directed_mul_pairs():
        for op, name in ((2, "mul"), (6, "muleq")):
            cases.append(Case(name, f"W_{name}({i64lit(a)}, {i64lit(b)})", ("bin", op, a, b), f"{name}(raw {a}, raw {b}) [directed]"))
    for t in (3, 11):
        for (a, b) in directed_mul_pairs()[::2]:
            for order in range(3):
                cases.append(Case(f"mixed*_{TYPES[t]}", f"W_mix<2,{order},{TYPES[t]}>({i64lit(a)}, {typed_lit(t, b & ((1 << 64) - 1))})", ("mixed", 2, t, order, a, b & ((1 << 64) - 1)), f"raw {a} * {TYPES[t]}({b}) order {order} [directed]"))
    for left in (0, 1):
        for a in sm:
            for r in (-(1 << 31), -1, 0, 1, 15, 16, 17, 31, 32, 47, 48, 62, 63):
                cases.append(Case("shl" if left else "shr", f"W_{'shl' if left else 'shr'}({i64lit(a)}, {r if r != -(1 << 31) else '(-2147483647-1)'})", ("shift", left, a, r), f"raw {a} {'<<' if left else '>>'} {r}"))
    for t in ALL_TYPES:
        tv = type_values(t, th)
        for how in range(3):
            for b in tv:
                lit = typed_lit(t, b)
                cases.append(Case(f"from_{TYPES[t].replace(' ','_')}", f"W_from<{how},{TYPES[t]}>({lit})", ("from_int" if is_int(t) else "from_fp", how, t, b), f"how={how} {TYPES[t]} bits {b:#x}"))
        for how in range(3 if is_int(t) else 2):
            for a in sm:
                cases.append(Case(f"to_{TYPES[t].replace(' ','_')}", f"W_to<{how},{TYPES[t]}>({i64lit(a)})", ("to_int" if is_int(t) else "to_fp", how, t, a), f"how={how} raw {a} -> {TYPES[t]}", dbl=(t == 9), res32=(t == 8)))
        for op in range(4):
            for order in range(3):
                if t == 9 and order == 2:
                    continue
                for a in sm[::2] if not th else sm:
                    for b in tv:
                        cases.append(Case(f"mixed{MIX_OPS[op]}_{TYPES[t]}", f"W_mix<{op},{order},{TYPES[t]}>({i64lit(a)}, {typed_lit(t, b)})", ("mixed", op, t, order, a, b),
                                          f"raw {a} {MIX_OPS[op]} {TYPES[t]} bits {b:#x} order {order}", dbl=(t == 9)))
        if is_int(t):
            for b in tv:
                cases.append(Case(f"angle_to_radians_{TYPES[t]}", f"W_a2r<{TYPES[t]}>({typed_lit(t, b)})", ("a2r", t, b), f"{TYPES[t]} bits {b:#x}"))
        if t != 9:
            for fn in range(3):
                for b in tv:
                    cases.append(Case(f"xangle{fn}_{TYPES[t]}", f"W_xangle<{fn},{TYPES[t]}>({typed_lit(t, b)})", ("xangle", fn, t, b), f"fn={fn} {TYPES[t]} bits {b:#x}"))
    return cases

class ShimRT:
    """ctypes view of a shim, for the run-time value of a case."""
    def __init__(self, path):
        L = ctypes.CDLL(path)
        i64, u64, ci, sz = ctypes.c_int64, ctypes.c_uint64, ctypes.c_int, ctypes.c_size_t
        L.fm_un.restype = i64; L.fm_un.argtypes = [ci, i64]
        L.fm_bin.restype = i64; L.fm_bin.argtypes = [ci, i64, i64]
        L.fm_shift.restype = i64; L.fm_shift.argtypes = [ci, i64, ci]
        L.fm_from_int.restype = i64; L.fm_from_int.argtypes = [ci, ci, u64]
        L.fm_to_int.restype = u64; L.fm_to_int.argtypes = [ci, ci, i64]
        L.fm_from_fp.restype = i64; L.fm_from_fp.argtypes = [ci, ci, u64]
        L.fm_to_fp.restype = u64; L.fm_to_fp.argtypes = [ci, ci, i64]
        L.fm_mixed.restype = u64; L.fm_mixed.argtypes = [ci, ci, ci, i64, u64]
        L.fm_angle_to_radians.restype = i64; L.fm_angle_to_radians.argtypes = [ci, u64]
        L.fm_xangle.restype = i64; L.fm_xangle.argtypes = [ci, ci, u64]
        L.fm_angle_aprox.restype = i64; L.fm_angle_aprox.argtypes = [ci, ctypes.c_int32]
        L.fm_probe_sqrt_algo.restype = ci
        L.fm_sqrt_constexpr_available.restype = ci
        self.L = L
        self.algo = L.fm_probe_sqrt_algo()
        self.cx = L.fm_sqrt_constexpr_available()
    def call(self, rt):
        L = self.L; k = rt[0]
        def s(v):
            v = int(v)
            return v - (1 << 64) if v >= 1 << 63 else v
        if k == "un": return L.fm_un(rt[1], s(rt[2])) & 0xffffffffffffffff
        if k == "bin": return L.fm_bin(rt[1], s(rt[2]), s(rt[3])) & 0xffffffffffffffff
        if k == "shift": return L.fm_shift(rt[1], s(rt[2]), rt[3]) & 0xffffffffffffffff
        if k == "from_int": return L.fm_from_int(rt[1], rt[2], rt[3]) & 0xffffffffffffffff
        if k == "to_int": return L.fm_to_int(rt[1], rt[2], s(rt[3]))
        if k == "from_fp": return L.fm_from_fp(rt[1], rt[2], rt[3]) & 0xffffffffffffffff
        if k == "to_fp": return L.fm_to_fp(rt[1], rt[2], s(rt[3]))
        if k == "mixed": return L.fm_mixed(rt[1], rt[2], rt[3], s(rt[4]), rt[5])
        if k == "a2r": return L.fm_angle_to_radians(rt[1], rt[2]) & 0xffffffffffffffff
        if k == "xangle": return L.fm_xangle(rt[1], rt[2], rt[3]) & 0xffffffffffffffff
        if k == "angle_aprox": return L.fm_angle_aprox(rt[1], rt[2]) & 0xffffffffffffffff
        raise ValueError(k)

def rt_values(path, rts):
    """Run-time values of a list of call tuples, computed in a forked child so that a trap inside the library (SIGFPE, SIGSEGV)
    is an observation about the code under test and not the death of the driver. Returns a list of int | ("trap", signal)."""
    out = [None] * len(rts)
    start = 0
    while start < len(rts):
        r, w = os.pipe()
        pid = os.fork()
        if pid == 0:
            try:
                os.close(r)
                sh = ShimRT(path)
                buf = []
                for i in range(start, len(rts)):
                    os.write(w, b"s%d\n" % i)          # about to call i (unbuffered: the parent learns which call trapped)
                    v = sh.call(rts[i])
                    os.write(w, b"v%d %d\n" % (i, v))
                os._exit(0)
            except BaseException:
                os._exit(3)
        os.close(w)
        data = b""
        with os.fdopen(r, "rb") as f:
            data = f.read()
        _, status = os.waitpid(pid, 0)
        last_started = None
        for line in data.splitlines():
            if line[:1] == b"s":
                last_started = int(line[1:])
            elif line[:1] == b"v":
                i, v = line[1:].split()
                out[int(i)] = int(v)
        if os.WIFSIGNALED(status) and last_started is not None and out[last_started] is None:
            out[last_started] = ("trap", os.WTERMSIG(status))
            start = last_started + 1
            continue
        if os.WIFEXITED(status) and os.WEXITSTATUS(status) == 0:
            break
        raise RuntimeError(f"run-time value helper failed for {path}: status {status}")
    return out

def is_dbl_special(bits):
    d = struct.unpack("<d", struct.pack("<Q", bits))[0]
    return math.isnan(d) or math.isinf(d)

UB_PAT = re.compile(r"overflow|shift|division by zero|divide by zero|outside the range|out of range|out of bounds|not in range|exceeds|negative", re.I)

def compile_chunk(compiler, std, algo, inc, lines, workdir, tag):
    """Compile one chunk; returns (values list or None per line, {line_index: diagnostic})."""
    src = os.path.join(workdir, f"ce_{tag}.cc")
    so = os.path.join(workdir, f"ce_{tag}.so")
    flags = [compiler, "-std=" + std, "-O0", "-fPIC", "-shared", "-Wno-deprecated-declarations", "-I" + inc]
    if algo == "abacus":
        flags.append("-DFIXEDMATH_ENABLE_SQRT_ABACUS_ALGO")
    flags += ["-fmax-errors=0"] if compiler == "g++" else ["-ferror-limit=0"]
    if compiler == "g++":
        flags.append("-fconstexpr-ops-limit=500000000")
    else:
        flags.append("-fconstexpr-steps=500000000")
    rejected = {}
    active = list(range(len(lines)))
    for attempt in range(3):
        with open(src, "w") as f:
            f.write(PRELUDE)
            for k, i in enumerate(active):
                f.write(f"constexpr u64 c{i} = static_cast<u64>({lines[i]});\n")
            f.write('extern "C" __attribute__((visibility("default"))) const u64 ce_vals[] = {' + ",".join(f"c{i}" for i in active) + ",0};\n")
        r = subprocess.run(flags + [src, "-o", so], stdout=subprocess.PIPE, stderr=subprocess.STDOUT, text=True)
        if r.returncode == 0:
            L = ctypes.CDLL(so)
            arr = (ctypes.c_uint64 * (len(active) + 1)).in_dll(L, "ce_vals")
            vals = [None] * len(lines)
            for k, i in enumerate(active):
                vals[i] = int(arr[k])
            try:
                os.remove(src); os.remove(so)
            except OSError:
                pass
            return vals, rejected
        # collect the chunk lines named in diagnostics
        first = PRELUDE_LINES + 1
        bad = {}
        cur_msgs = r.stdout.splitlines()
        for ln in cur_msgs:
            m = re.match(r".*ce_%s\.cc:(\d+):\d+: (.*)" % re.escape(tag), ln)
            if m:
                lno = int(m.group(1))
                if first <= lno < first + len(active):
                    idx = active[lno - first]
                    bad.setdefault(idx, [])
                    bad[idx].append(m.group(2))
        if not bad:
            raise RuntimeError("constant-evaluation chunk failed to compile for an unexpected reason:\n" + r.stdout[:3000])
        # attach header diagnostics (the reason) - take error lines from the library headers too
        reasons = [l for l in cur_msgs if "error:" in l]
        for idx, msgs in bad.items():
            rejected[idx] = " | ".join(msgs)[:400]
        rejected["_reasons"] = reasons[:20]
        active = [i for i in active if i not in bad]
        if not active:
            return [None] * len(lines), rejected
    raise RuntimeError("constant-evaluation chunk still fails after removing rejected lines")

def table_laws(focus, val):
    """Relational clauses evaluated on the complete table of constant-evaluated values of ONE translation unit (val: call tuple -> value).
    Yields (entry, law expression for replay, description). Used where the alphabet is a complete domain, so that every instance of
    the relation is decided without evaluating anything twice."""
    def sv(v):
        return v - (1 << 64) if v >= 1 << 63 else v
    if focus == "C12":
        A = {x: sv(val[("un", 9, x)]) for x in range(-65536, 65537) if ("un", 9, x) in val}
        C = {x: sv(val[("un", 10, x)]) for x in range(-65536, 65537) if ("un", 10, x) in val}
        L = i64lit
        for x in range(-65536, 65537):
            if x in A and -x in A and A[-x] != -A[x]:
                yield ("asin_odd", f"W_asin({L(-x)}) == -W_asin({L(x)})", f"asin(-x) == -asin(x), raw x={x}: {A[-x]} vs {-A[x]}")
            if x in A and x - 1 in A and A[x] < A[x - 1] and abs(A[x]) != FX_NAN and abs(A[x - 1]) != FX_NAN:
                yield ("asin_monotone", f"W_asin({L(x)}) >= W_asin({L(x - 1)})", f"asin(x) >= asin(x - 1ulp), raw x={x}: {A[x]} < {A[x - 1]}")
            if x in A and x in C and abs(A[x]) != FX_NAN and abs(C[x]) != FX_NAN and not (102943 <= A[x] + C[x] <= 102944):
                yield ("acos_vs_asin", f"W_acos({L(x)}) + W_asin({L(x)}) >= 102943 && W_acos({L(x)}) + W_asin({L(x)}) <= 102944", f"acos(x) within 1 ulp of pi/2 - asin(x), raw x={x}: acos {C[x]}, asin {A[x]}")

def _example(cs, cfgname, shape, expected, got, prop):
    return {"entry": cs.entry, "cfg": cfgname, "shape": shape, "expected": expected, "got": got, "note": "", "rcase": "",
            "inputs": {"expr": cs.expr, "case": cs.desc, "rt": json.dumps(list(cs.rt) if cs.rt is not None else None), "flags": json.dumps([cs.sqrt_dep, cs.dbl, cs.res32]), "mode": cs.mode, "prop": prop}, "rin": []}

def judge_values(exe, sdir, prop, shim_name, items, workdir, tag):
    """items: [(idx, rt tuple, value)] -> {idx: (class, expected, got)} for the items the property's oracle rejects."""
    if not items:
        return {}
    inp = os.path.join(workdir, f"judge_{tag}.txt"); out = os.path.join(workdir, f"judge_{tag}.json")
    M = (1 << 64) - 1
    with open(inp, "w") as f:
        for idx, rt, v in items:
            f.write(f"{idx} {rt[0]} {len(rt) - 1} " + " ".join(str(int(x) & M) for x in rt[1:]) + f" {int(v) & M}\n")
    r = subprocess.run([exe, prop, "--judge", inp, "--shims", sdir, "--cfgs", shim_name, "--out", out], stdout=subprocess.PIPE, stderr=subprocess.STDOUT, text=True)
    if r.returncode not in (0, 1):
        raise RuntimeError(f"judge run failed for {prop} ({shim_name}): exit {r.returncode}: {r.stdout[-800:]}")
    j = json.load(open(out))
    res = {}
    for vc in j["violation_classes"]:
        for ex in vc["examples"]:
            res.setdefault(int(ex["order"]), (vc["class"], ex["expected"], ex["got"], vc["count"]))
    for f in (inp, out):
        try:
            os.remove(f)
        except OSError:
            pass
    return res

def run_lane(tier, inc, shim_dir, build_shims, workdir, ncpu, only_ub=False, focus=None, prop="C08", exe=None):
    """Returns (violation_classes, stats, samples)."""
    th = tier == "thorough"
    stds = ["c++17", "c++20", "c++2b"]
    if th:
        tus = [(c, s, a) for c in ("gcc", "clang") for s in stds for a in ("std", "abacus")]
    else:
        tus = [("gcc", "c++17", "abacus"), ("gcc", "c++20", "std"), ("gcc", "c++2b", "std"), ("clang", "c++17", "abacus"), ("clang", "c++20", "std"), ("clang", "c++2b", "abacus"), ("gcc", "c++17", "std")]
    if only_ub:
        tus = [("gcc", "c++17", "abacus"), ("clang", "c++20", "std")]
    need = sorted({f"{c}-O0-{s}-{a}" for c, s, a in tus} | {"gcc-O0-c++17-abacus", "clang-O0-c++17-abacus"})
    sdir, errors = build_shims(need)
    if errors:
        raise RuntimeError("shim build failed for the constant-evaluation lane: " + str(list(errors)))
    rts = {n: ShimRT(os.path.join(sdir, n + ".so")) for n in need}
    os.makedirs(workdir, exist_ok=True)
    classes = {}
    stats = {"consteval.lines": 0, "consteval.accepted": 0, "consteval.rejected": 0, "consteval.compared_with_run_time": 0, "consteval.skipped_double_inf_nan_(language_rule)": 0,
             "consteval.translation_unit_configs": len(tus)}
    if focus:
        stats.update({"consteval.judged_by_the_property_oracle": 0, "consteval.law_lines_evaluated": 0, "consteval.rejected_lines_(not_a_verdict_of_this_property;_C08_decides_constexpr-ness)": 0})
    samples = []
    jobs = []
    CH = 4000
    def add(cl, count, ex):
        e = classes.setdefault(cl, {"class": cl, "count": 0, "examples": []})
        e["count"] += count
        if len(e["examples"]) < 3:
            e["examples"].append(ex)
    for (c, s, a) in tus:
        name = f"{c}-O0-{s}-{a}"
        rt = rts[name]
        cases = gen_cases(tier, bool(rt.cx), focus)
        # run-time values first (they decide the language-rule exclusions; in "equal" mode they are also the expectation)
        kept = []
        abname = f"{c}-O0-c++17-abacus"
        use_ab = [bool(cs.rt is not None and cs.sqrt_dep and rt.algo != 1) for cs in cases]
        own = rt_values(os.path.join(sdir, name + ".so"), [cs.rt for cs, ab in zip(cases, use_ab) if cs.rt is not None and not ab])
        oth = rt_values(os.path.join(sdir, abname + ".so"), [cs.rt for cs, ab in zip(cases, use_ab) if ab])
        own_it, oth_it = iter(own), iter(oth)
        for cs, ab in zip(cases, use_ab):
            if cs.rt is None:
                kept.append((cs, None, False)); continue
            v = next(oth_it) if ab else next(own_it)
            if isinstance(v, tuple):
                stats["consteval.run_time_call_trapped"] = stats.get("consteval.run_time_call_trapped", 0) + 1
                add((("C07.trap_in_run_time_call." if only_ub else prop + ".trap.") + cs.entry), 1,
                    _example(cs, (abname if ab else name), "run-time call made to obtain the comparison value", "returns normally", f"killed by signal {v[1]}", prop))
                continue
            if cs.dbl and is_dbl_special(v):
                stats["consteval.skipped_double_inf_nan_(language_rule)"] += 1
                continue
            kept.append((cs, v, ab))
        for k in range(0, len(kept), CH):
            jobs.append((name, c, s, a, k, kept[k:k + CH]))
    def work(j):
        name, c, s, a, k, chunk = j
        tag = f"{name.replace('+', 'p')}_{k}"
        vals, rej = compile_chunk("g++" if c == "gcc" else "clang++", s, a, inc, [cs.expr for cs, _, _ in chunk], workdir, tag)
        items = [(i, cs.rt, vals[i]) for i, (cs, _, _) in enumerate(chunk) if cs.mode == "oracle" and i not in rej and vals[i] is not None]
        verdicts = judge_values(exe, sdir, prop, name, items, workdir, tag) if items else {}
        return j, vals, rej, verdicts, len(items)
    tu_vals = {}
    with cf.ThreadPoolExecutor(ncpu) as ex:
        for j, vals, rej, verdicts, njudged in ex.map(work, jobs):
            name, c, s, a, k, chunk = j
            cfgname = f"{c}-{s}-{a} (constant evaluation)"
            if focus == "C12":
                tv = tu_vals.setdefault(cfgname, {})
                for i, (cs, _, _) in enumerate(chunk):
                    if cs.rt is not None and i not in rej and vals[i] is not None:
                        tv[tuple(cs.rt)] = vals[i]
            reasons = rej.pop("_reasons", [])
            if focus:
                stats["consteval.judged_by_the_property_oracle"] += njudged
            for i, (cs, rtv, other) in enumerate(chunk):
                stats["consteval.lines"] += 1
                if i in rej and cs.optional:
                    stats["consteval.not_constexpr_by_design"] = stats.get("consteval.not_constexpr_by_design", 0) + 1
                    continue
                if i in rej:
                    stats["consteval.rejected"] += 1
                    diag = rej[i] + " || " + " ; ".join(reasons[:3])
                    if only_ub and not UB_PAT.search(diag):
                        continue
                    if focus:
                        stats["consteval.rejected_lines_(not_a_verdict_of_this_property;_C08_decides_constexpr-ness)"] += 1
                        continue
                    cl = ("C07.consteval_ub." if only_ub else prop + ".consteval_rejected.") + cs.entry
                    add(cl, 1, _example(cs, cfgname, "constexpr", "accepted as a constant expression (the run-time call returns " + hex(rtv if rtv is not None else 0) + ")", "rejected: " + diag[:600], prop))
                    continue
                stats["consteval.accepted"] += 1
                if only_ub:
                    continue
                v = vals[i]
                if cs.mode == "law":
                    stats["consteval.law_lines_evaluated"] = stats.get("consteval.law_lines_evaluated", 0) + 1
                    if v != 1:
                        add(prop + ".consteval_law_violated." + cs.entry, 1, _example(cs, cfgname, "constexpr law (a relation between constant-evaluated calls)", "true", "false", prop))
                    continue
                if cs.mode == "oracle":
                    if i in verdicts:
                        cl, expd, got, _ = verdicts[i]
                        add(cl + ".in_constant_evaluation", 1, _example(cs, cfgname, "constexpr, judged by the property's oracle", expd, got + " (constant-evaluated value " + hex(v) + ")", prop))
                    continue
                if cs.res32:
                    v &= 0xffffffff; rtv &= 0xffffffff
                stats["consteval.compared_with_run_time"] += 1
                if v != rtv:
                    add(prop + ".consteval_value_differs." + cs.entry, 1, _example(cs, cfgname, "constexpr vs run time" + (" (run-time value from the abacus configuration of the same compiler)" if other else ""),
                                                                                      hex(rtv) + " (run-time value)", hex(v) + " (constant-evaluated value)", prop))
                elif len(samples) < 3 and cs.entry in ("tan", "mixed/_double", "hypot"):
                    samples.append(f"constexpr {cs.expr} == run time {hex(rtv)} in {name}")
    for cfgname, tv in sorted(tu_vals.items()):
        n = 0
        for entry, expr, desc in table_laws(focus, tv):
            cs = Case(entry, f"(({expr}) ? 1 : 0)", None, desc, sqrt_dep=True, mode="law")
            add(prop + ".consteval_law_violated." + entry, 1, _example(cs, cfgname, "constexpr law (a relation between constant-evaluated calls), evaluated on the complete value table", "true", "false", prop))
            n += 1
        stats["consteval.relations_evaluated_on_complete_value_tables"] = stats.get("consteval.relations_evaluated_on_complete_value_tables", 0) + 3 * 131073
    return sorted(classes.values(), key=lambda x: x["class"]), stats, samples


def replay_one(ex, inc, build_shims, workdir, exe=None):
    """Re-evaluate one recorded constant-evaluation example against the current tree. Returns (reproduced, text)."""
    rt = json.loads(ex["inputs"]["rt"]); rt = tuple(rt) if rt is not None else None
    if ex.get("shape", "").startswith("run-time call"):
        sdir, errors = build_shims([ex["cfg"]])
        if errors:
            return True, "shim does not build: " + list(errors.values())[0][-800:]
        v = rt_values(os.path.join(sdir, ex["cfg"] + ".so"), [rt])[0]
        return isinstance(v, tuple), (f"the run-time call is killed by signal {v[1]}" if isinstance(v, tuple) else f"the run-time call returns {hex(v)}")
    c, std, algo = ex["cfg"].split(" ")[0].split("-")
    sqrt_dep, dbl, res32 = json.loads(ex["inputs"]["flags"])
    mode = ex["inputs"].get("mode", "equal"); prop = ex["inputs"].get("prop", "C08")
    name = f"{c}-O0-{std}-{algo}"
    sdir, errors = build_shims([name, f"{c}-O0-c++17-abacus"])
    if errors:
        return True, "shim does not build: " + list(errors.values())[0][-800:]
    os.makedirs(workdir, exist_ok=True)
    vals, rej = compile_chunk("g++" if c == "gcc" else "clang++", std, algo, inc, [ex["inputs"]["expr"]], workdir, "replay")
    rej.pop("_reasons", None)
    if 0 in rej:
        if mode != "equal":
            return False, "rejected as a constant expression (not a verdict of this property): " + rej[0]
        return True, "rejected as a constant expression: " + rej[0]
    v = vals[0]
    if mode == "law":
        return (v != 1), f"the law expression evaluates to {v}"
    if mode == "oracle":
        verdicts = judge_values(exe, sdir, prop, name, [(0, rt, v)], workdir, "replay")
        if 0 in verdicts:
            return True, f"constant-evaluated value {hex(v)} rejected by the property's oracle: class {verdicts[0][0]}, expected {verdicts[0][1]}"
        return False, f"constant-evaluated value {hex(v)} accepted by the property's oracle"
    me = ShimRT(os.path.join(sdir, name + ".so"))
    rtv = rt_values(os.path.join(sdir, (f"{c}-O0-c++17-abacus" if (sqrt_dep and me.algo != 1) else name) + ".so"), [rt])[0]
    if isinstance(rtv, tuple):
        return True, f"the run-time call is killed by signal {rtv[1]}"
    if res32:
        v &= 0xffffffff; rtv &= 0xffffffff
    if v != rtv:
        return True, f"constant-evaluated {hex(v)} != run-time {hex(rtv)}"
    return False, f"accepted, constant-evaluated value {hex(v)} equals the run-time value"
