// C02 multiplication, C03 division. Exact 128-bit oracles; every division runs under a trap guard.
#include "common.h"
#include "types.h"

namespace {
const char* ORDN[3] = { "a op n", "n op a", "a op= n" };

//====================================================================== C02
struct C02
  {
  Recorder& rec; int c_nan_small, c_not_nan, c_inexact, c_sc_wrong, c_sc_not_nan;
  explicit C02(Recorder& r) : rec(r),
     c_nan_small(r.cls("C02.mul_ff.nan_although_raw_product_fits_int64")),
     c_not_nan(r.cls("C02.mul_ff.out_of_range_not_nan")),
     c_inexact(r.cls("C02.mul_ff.result_not_within_one_ulp")),
     c_sc_wrong(r.cls("C02.mul_scalar.in_range_wrong")),
     c_sc_not_nan(r.cls("C02.mul_scalar.out_of_range_not_nan")) {}
  template<typename V> void ff(Shim* s, int op, i64 a, i64 b, i64 got, u64 order, V& lv, u64* br = nullptr)
    {
    i128 p = static_cast<i128>(a) * b;
    bool fits64 = p >= INT64_MIN && p <= INT64_MAX;
    bool out = p > static_cast<i128>(FX_MAX) * 65536 || p < static_cast<i128>(FX_LOWEST) * 65536;
    if( br ) { if( fits64 ) ++br[0]; else if( out ) ++br[2]; else ++br[1]; }
    auto mk = [=](std::string e) { return ex1(s, op == B_MUL ? "operator * (fixed,fixed)" : "operator *= (fixed,fixed)", "", {{"a",to_s(a)},{"b",to_s(b)}}, e + " (exact raw product " + to_s128(p) + ")", to_s(got), "ff", {to_s(op), to_s(a), to_s(b)}); };
    if( fx_isnan(got) )
      { if( fits64 ) lv.hit(c_nan_small, order, [=]{ return mk("not NaN: the raw product fits in int64"); }); return; }
    if( out ) { lv.hit(c_not_nan, order, [=]{ return mk("NaN: exact product outside [lowest(),max()]"); }); return; }
    i128 d = static_cast<i128>(got) * 65536 - p; if( d < 0 ) d = -d;
    if( d > 65536 ) lv.hit(c_inexact, order, [=]{ return mk("within one ulp of " + to_s128(floor_div(p, 65536))); });
    }
  template<typename V> void scalar(Shim* s, int t, int ord, i64 a, u64 nbits, i64 got, u64 order, V& lv, u64* br = nullptr)
    {
    i128 n = int_value(t, nbits);
    i128 p = static_cast<i128>(a) * n;
    bool in = p >= FX_LOWEST && p <= FX_MAX;
    if( br ) ++br[in ? 3 : 4];
    auto mk = [=](std::string e) { return ex1(s, std::string("operator * (") + ORDN[ord] + ")", TN[t], {{"a",to_s(a)},{"n",to_s128(n)}}, e, to_s(got), "sc", {to_s(t), to_s(ord), to_s(a), to_su(nbits)}); };
    if( in ) { if( got != static_cast<i64>(p) ) lv.hit(c_sc_wrong, order, [=]{ return mk(to_s128(p)); }); }
    else if( !fx_isnan(got) ) lv.hit(c_sc_not_nan, order, [=]{ return mk("NaN (exact product " + to_s128(p) + ")"); });
    }
  };

void explore02(Options const& o, std::vector<Shim*> const& shims, std::vector<Shim*> const&, Recorder& rec)
  {
  bool th = o.tier == "thorough";
  std::vector<i64> S = th ? S_set(6,4) : S_set(4,2);
  std::vector<i64> Sa = th ? S_set(4,2) : S_set(3,1);           // fixed operand of the scalar forms
  rec.note("alphabet", "fixed*fixed: S^2, |S|=" + std::to_string(S.size()) + ", operators * and *=; fixed*n, n*fixed, fixed*=n: a in S' (|S'|=" + std::to_string(Sa.size())
           + ") x every value of the 8- and 16-bit types, S-shaped + boundary-window values of the 32/64-bit types");
  C02 c(rec);
  std::vector<i64> Dg = D_set(th ? 2 : 1);
  rec.note("alphabet.digit_patterns", "D^2, |D|=" + std::to_string(Dg.size()) + ": words whose 16-bit and 32-bit digits are drawn from {0,1,2,half-1,half,half+1,max-1,max,...}, both signs");
  std::vector<std::vector<u64>> tv(T_CODES);
  for( int t : INT_TYPES ) tv[t] = int_type_values(t, th ? 6 : 4, 2, th ? 64 : 8);
  for( size_t ci = 0; ci < shims.size(); ++ci )
    {
    Shim* s = shims[ci];
    u64 ob = static_cast<u64>(ci) << 56;
    for( int op : { B_MUL, B_MULEQ } )
      {
      std::mutex m; u64 brs[5] = {0,0,0,0,0};
      parallel_blocks(S.size(), o.threads, [&](size_t ia, int) {
        LocalViol lv(rec); u64 br[5] = {0,0,0,0,0};
        std::vector<i64> out(S.size());
        s->fm_bin_row(op, S[ia], S.data(), S.size(), out.data());
        for( size_t ib = 0; ib < S.size(); ++ib )
          {
          u64 ord = ob | (static_cast<u64>(op) << 48) | (ia * S.size() + ib);
          c.ff(s, op, S[ia], S[ib], out[ib], ord, lv, br);
          if( ia % 4 == 0 ) c.ff(s, op, S[ia], S[ib], s->fm_bin(op, S[ia], S[ib]), ord, lv);
          }
        std::lock_guard<std::mutex> g(m); for( int i = 0; i < 5; ++i ) brs[i] += br[i];
        });
      u64 n = static_cast<u64>(S.size()) * S.size(); rec.add_states(n, n + n/4, n + n/4);
      rec.count("branch.ff.raw_product_fits_int64", brs[0]); rec.count("branch.ff.between", brs[1]); rec.count("branch.ff.out_of_range", brs[2]);
      }
    // ---- digit-pattern words D^2 (corners of limb-wise multiplication: carries, cross terms)
    for( int op : { B_MUL, B_MULEQ } )
      {
      parallel_blocks(Dg.size(), o.threads, [&](size_t ia, int) {
        LocalViol lv(rec); std::vector<i64> out(Dg.size());
        s->fm_bin_row(op, Dg[ia], Dg.data(), Dg.size(), out.data());
        for( size_t ib = 0; ib < Dg.size(); ++ib ) c.ff(s, op, Dg[ia], Dg[ib], out[ib], ob | (static_cast<u64>(0x40 | op) << 48) | (ia * Dg.size() + ib), lv);
        });
      u64 n = static_cast<u64>(Dg.size()) * Dg.size(); rec.add_states(n, n, n); rec.count("digit_pattern_pairs", n);
      }
    // ---- directed pairs: products at the boundaries of the three clauses, in-band sentinel collisions, aliasing, dense fraction windows
    {
    LocalViol lv(rec); u64 n = 0;
    std::vector<std::pair<i64,i64>> dp;
    const i128 T[4] = { static_cast<i128>(1) << 63, static_cast<i128>(FX_MAX) * 65536, (static_cast<i128>(1) << 63) - 1, static_cast<i128>(FX_MAX) * 65536 + 65535 };
    for( i128 t : T )
      {
      for( i64 b : Sa ) { if( b == 0 ) continue; i128 q = t / b; for( int d = -2; d <= 2; ++d ) for( int sg = 0; sg < 2; ++sg ) { i128 a = (sg ? -q : q) + d; if( a >= FX_LOWEST && a <= FX_MAX ) dp.push_back({static_cast<i64>(a), b}); } }
      i64 r = static_cast<i64>(std::sqrt(static_cast<long double>(t)));
      for( int d1 = -3; d1 <= 3; ++d1 ) for( int d2 = -3; d2 <= 3; ++d2 ) for( int sg = 0; sg < 4; ++sg ) dp.push_back({ (sg & 1 ? -1 : 1) * (r + d1), (sg & 2 ? -1 : 1) * (r + d2) });
      }
    // every factorisation a*b == INT64_MAX (the NaN pattern) and == INT64_MAX-1 (max()): a legal product that collides with a sentinel
    {
    const i64 P1[7] = { 7, 7, 73, 127, 337, 92737, 649657 };            // 2^63 - 1
    const i64 P2[4] = { 2, 3, 715827883, 2147483647 };                   // 2^63 - 2
    auto divisors = [&](const i64* p, int np, i64 total) { std::vector<i64> ds { 1 }; for( int i = 0; i < np; ++i ) { size_t m = ds.size(); for( size_t k = 0; k < m; ++k ) ds.push_back(ds[k] * p[i]); }
      std::sort(ds.begin(), ds.end()); ds.erase(std::unique(ds.begin(), ds.end()), ds.end()); for( i64 dv : ds ) for( int sg = 0; sg < 2; ++sg ) for( int d = -1; d <= 1; ++d ) dp.push_back({ (sg ? -dv : dv), (sg ? -(total / dv) : total / dv) + d }); };
    divisors(P1, 7, INT64_MAX); divisors(P2, 4, INT64_MAX - 1);
    }
    for( int op : { B_MUL, B_MULEQ } ) for( size_t i = 0; i < dp.size(); ++i )
      { c.ff(s, op, dp[i].first, dp[i].second, s->fm_bin(op, dp[i].first, dp[i].second), ob | (5ull << 48) | (static_cast<u64>(op) << 40) | i, lv); c.ff(s, op, dp[i].second, dp[i].first, s->fm_bin(op, dp[i].second, dp[i].first), ob | (5ull << 48) | (static_cast<u64>(op) << 40) | i, lv); n += 2; }
    { C02 cs(rec); cs.c_nan_small = cs.c_not_nan = cs.c_inexact = rec.cls("C02.mul_self_aliased.wrong");
      for( size_t i = 0; i < S.size(); ++i ) { i64 x = S[i]; i64 g = s->fm_un(U_MULEQ_SELF, x); i64 e = s->fm_bin(B_MULEQ, x, x);
        // x *= x must behave as x * x: judged by the same three clauses, and it must equal the non-aliased form bit for bit
        if( g != e && !(fx_isnan(g) && fx_isnan(e)) ) lv.hit(cs.c_inexact, ob | (6ull << 48) | i, [=]{ return ex1(s, "x *= x (same object)", "", {{"x",to_s(x)}}, to_s(e) + " (= x * x)", to_s(g), "self", {to_s(x)}); });
        ++n; } }
    rec.add_states(n, n, n); rec.count("directed_boundary_and_sentinel_pairs", n);
    }
    // dense fraction windows: every low-16-bit pattern of one operand at every magnitude, against operands of all magnitudes
    {
    std::vector<i64> As { 1, 3, 65536, 98304, 1ll<<20, (1ll<<31) + 12345, 1ll<<32, (1ll<<40) + 1, 0x5555555555ll, 1ll<<46, (1ll<<47) - 1, 1ll<<47, 0x6487ed5110b4ll, 1ll<<55, 1ll<<62, FX_MAX };
    size_t na = As.size(); for( size_t i = 0; i < na; ++i ) As.push_back(-As[i]);
    std::vector<i64> bases; for( int e = 16; e <= 62; ++e ) { bases.push_back(1ll << e); bases.push_back(-(1ll << e)); if( e < 62 ) bases.push_back((3ll << (e - 1)) ); }
    for( int op : { B_MUL, B_MULEQ } )
      parallel_blocks(bases.size(), o.threads, [&](size_t bi, int) {
        LocalViol lv(rec); std::vector<i64> bw(65536), out(65536);
        for( size_t t = 0; t < 65536; ++t ) bw[t] = bases[bi] + static_cast<i64>(t);
        for( size_t ai = 0; ai < As.size(); ++ai )
          {
          s->fm_bin_row(op, As[ai], bw.data(), bw.size(), out.data());
          for( size_t t = 0; t < 65536; ++t ) c.ff(s, op, As[ai], bw[t], out[t], ob | (7ull << 48) | (static_cast<u64>(op) << 44) | ((bi * As.size() + ai) << 16) | t, lv);
          }
        });
    u64 n = static_cast<u64>(bases.size()) * As.size() * 65536 * 2; rec.add_states(n, n, n); rec.count("dense_fraction_window_states", n);
    }
    for( int t : INT_TYPES ) for( int ord = 0; ord < 3; ++ord )
      {
      std::vector<u64> const& ns = tv[t];
      std::mutex m; u64 brs[5] = {0,0,0,0,0};
      parallel_blocks(ns.size(), o.threads, [&](size_t in, int) {
        LocalViol lv(rec); u64 br[5] = {0,0,0,0,0};
        // scalar products at the limit: a = +-(max() / n) +- 2
        { i128 nv = int_value(t, ns[in]); if( nv != 0 ) { i128 q = static_cast<i128>(FX_MAX) / nv; for( int sg = 0; sg < 2; ++sg ) for( int d = -2; d <= 2; ++d ) { i128 a = (sg ? -q : q) + d; if( a >= FX_LOWEST && a <= FX_MAX )
            c.scalar(s, t, ord, static_cast<i64>(a), ns[in], static_cast<i64>(s->fm_mixed(M_MUL, t, ord, static_cast<i64>(a), ns[in])), ob | (static_cast<u64>(8 + t) << 48) | (static_cast<u64>(ord) << 44) | (1ull << 43) | (in * 16 + static_cast<u64>(sg * 8 + d + 2)), lv, br); } } }
        std::vector<u64> out(Sa.size());
        s->fm_mixed_col(M_MUL, t, ord, Sa.data(), Sa.size(), ns[in], out.data());
        for( size_t ia = 0; ia < Sa.size(); ++ia )
          c.scalar(s, t, ord, Sa[ia], ns[in], static_cast<i64>(out[ia]), ob | (static_cast<u64>(8 + t) << 48) | (static_cast<u64>(ord) << 44) | (in * Sa.size() + ia), lv, br);
        if( in % 16 == 0 ) for( size_t ia = 0; ia < Sa.size(); ia += 7 )
          c.scalar(s, t, ord, Sa[ia], ns[in], static_cast<i64>(s->fm_mixed(M_MUL, t, ord, Sa[ia], ns[in])), ob | (static_cast<u64>(8 + t) << 48) | (static_cast<u64>(ord) << 44) | (in * Sa.size() + ia), lv);
        std::lock_guard<std::mutex> g(m); for( int i = 0; i < 5; ++i ) brs[i] += br[i];
        });
      u64 n = static_cast<u64>(ns.size()) * Sa.size(); rec.add_states(n, n, n);
      rec.count("branch.scalar.in_range", brs[3]); rec.count("branch.scalar.out_of_range", brs[4]);
      }
    }
  rec.sample("2^16 * 2^16 (raw 2^32 * 2^32) -> " + to_s(shims[0]->fm_bin(B_MUL, 1ll<<32, 1ll<<32)) + " (exact 2^32 = raw 2^48)");
  rec.sample("fixed(1) * uint64_t(2^63) -> " + to_s(static_cast<i64>(shims[0]->fm_mixed(M_MUL, T_U64, O_FIX_T, 65536, 1ull<<63))) + " (NaN expected)");
  }
void replay02(Options const& o, Shim* s, Recorder& rec)
  {
  C02 c(rec); DirectViol d{rec};
  if( o.rcase == "ff" ) { int op = static_cast<int>(parse_i64(o.rin.at(0))); i64 a = parse_i64(o.rin.at(1)), b = parse_i64(o.rin.at(2));
    c.ff(s, op, a, b, s->fm_bin(op, a, b), 0, d); i64 out; s->fm_bin_row(op, a, &b, 1, &out); c.ff(s, op, a, b, out, 0, d); }
  else if( o.rcase == "self" ) { i64 x = parse_i64(o.rin.at(0)); i64 g = s->fm_un(U_MULEQ_SELF, x), e = s->fm_bin(B_MULEQ, x, x);
    if( g != e && !(fx_isnan(g) && fx_isnan(e)) ) rec.viol(rec.cls("C02.mul_self_aliased.wrong"), 0, [&]{ return ex1(s, "x *= x (same object)", "", {{"x",to_s(x)}}, to_s(e), to_s(g), o.rcase, o.rin); }); }
  else { int t = static_cast<int>(parse_i64(o.rin.at(0))), ord = static_cast<int>(parse_i64(o.rin.at(1))); i64 a = parse_i64(o.rin.at(2)); u64 n = parse_u64(o.rin.at(3));
    c.scalar(s, t, ord, a, n, static_cast<i64>(s->fm_mixed(M_MUL, t, ord, a, n)), 0, d); u64 out; s->fm_mixed_col(M_MUL, t, ord, &a, 1, n, &out); c.scalar(s, t, ord, a, n, static_cast<i64>(out), 0, d); }
  rec.add_states(1,1,1);
  }

//====================================================================== C03
struct C03
  {
  Recorder& rec; int c_zero, c_nan_small, c_inexact, c_trap, c_sc_zero, c_sc_wrong;
  explicit C03(Recorder& r) : rec(r),
     c_zero(r.cls("C03.div_ff.zero_divisor_not_nan")), c_nan_small(r.cls("C03.div_ff.nan_although_dividend_below_2^31")),
     c_inexact(r.cls("C03.div_ff.quotient_not_within_one_ulp")), c_trap(r.cls("C03.trap")),
     c_sc_zero(r.cls("C03.div_scalar.zero_divisor_not_nan")), c_sc_wrong(r.cls("C03.div_scalar.quotient_wrong")) {}
  template<typename V> void ff(Shim* s, int op, i64 a, i64 b, i64 got, u64 order, V& lv, u64* br = nullptr)
    {
    auto mk = [=](std::string e) { return ex1(s, op == B_DIV ? "operator / (fixed,fixed)" : "operator /= (fixed,fixed)", "", {{"a",to_s(a)},{"b",to_s(b)}}, e, to_s(got), "ff", {to_s(op), to_s(a), to_s(b)}); };
    if( b == 0 ) { if( br ) ++br[0]; if( !fx_isnan(got) ) lv.hit(c_zero, order, [=]{ return mk("NaN (division by zero)"); }); return; }
    bool small = a < (1ll << 47) && a > -(1ll << 47);
    if( br ) ++br[small ? 1 : 2];
    if( fx_isnan(got) ) { if( small ) lv.hit(c_nan_small, order, [=]{ return mk("not NaN: |a| < 2^31"); }); return; }
    i128 lhs = static_cast<i128>(got) * b - static_cast<i128>(a) * 65536; if( lhs < 0 ) lhs = -lhs;
    i128 ab = b < 0 ? -static_cast<i128>(b) : static_cast<i128>(b);
    if( lhs > ab ) lv.hit(c_inexact, order, [=]{ i128 q = (static_cast<i128>(a) * 65536) / b; return mk("NaN or within 2^-16 of the exact quotient (trunc = " + to_s128(q) + ")"); });
    }
  template<typename V> void trap(Shim* s, std::string entry, std::string shape, i64 a, std::string bname, std::string bval, int sig, std::string rcase, std::vector<std::string> rin, u64 order, V& lv)
    {
    lv.hit(c_trap, order, [=]{ return ex1(s, entry, shape, {{"a",to_s(a)},{bname,bval}}, "returns normally", "killed by signal " + std::to_string(sig) + (sig == SIGFPE ? " (SIGFPE)" : ""), rcase, rin); });
    }
  template<typename V> void scalar(Shim* s, int t, int ord, i64 a, u64 nbits, i64 got, u64 order, V& lv, u64* br = nullptr)
    {
    i128 n = int_value(t, nbits);
    auto mk = [=](std::string e) { return ex1(s, std::string("operator / (") + ORDN[ord] + ")", TN[t], {{"a",to_s(a)},{"n",to_s128(n)}}, e, to_s(got), "sc", {to_s(t), to_s(ord), to_s(a), to_su(nbits)}); };
    if( n == 0 ) { if( br ) ++br[3]; if( !fx_isnan(got) ) lv.hit(c_sc_zero, order, [=]{ return mk("NaN (division by zero)"); }); return; }
    if( br ) ++br[4];
    i128 q = static_cast<i128>(a) / n;     // truncation toward zero
    if( got != static_cast<i64>(q) ) lv.hit(c_sc_wrong, order, [=]{ return mk(to_s128(q)); });
    }
  };

void explore03(Options const& o, std::vector<Shim*> const& shims, std::vector<Shim*> const&, Recorder& rec)
  {
  bool th = o.tier == "thorough";
  std::vector<i64> S = th ? S_set(6,4) : S_set(4,2);
  std::vector<i64> Sa = th ? S_set(4,2) : S_set(3,1);
  rec.note("alphabet", "fixed/fixed: S^2, |S|=" + std::to_string(S.size()) + ", operators / and /=, every call under a SIGFPE/SIGSEGV/SIGABRT guard; fixed/n and fixed/=n: a in S' (|S'|=" + std::to_string(Sa.size())
           + ") x every value of the 8- and 16-bit types, S-shaped + boundary-window values of the 32/64-bit types");
  C03 c(rec);
  std::vector<i64> Dg = D_set(th ? 2 : 1);
  rec.note("alphabet.digit_patterns", "D^2, |D|=" + std::to_string(Dg.size()) + ": words whose 16-bit and 32-bit digits are drawn from {0,1,2,half-1,half,half+1,max-1,max,...}, both signs");
  std::vector<std::vector<u64>> tv(T_CODES);
  for( int t : INT_TYPES ) tv[t] = int_type_values(t, th ? 6 : 4, 2, th ? 64 : 8);
  for( size_t ci = 0; ci < shims.size(); ++ci )
    {
    Shim* s = shims[ci];
    u64 ob = static_cast<u64>(ci) << 56;
    for( int op : { B_DIV, B_DIVEQ } )
      {
      std::mutex m; u64 brs[5] = {0,0,0,0,0};
      parallel_blocks(S.size(), o.threads, [&](size_t ia, int) {
        LocalViol lv(rec); u64 br[5] = {0,0,0,0,0};
        std::vector<i64> out(S.size());
        i64 a = S[ia];
        int sig = guarded([&]{ s->fm_bin_row(op, a, S.data(), S.size(), out.data()); });
        bool row_ok = sig == 0;
        for( size_t ib = 0; ib < S.size(); ++ib )
          {
          i64 b = S[ib]; u64 ord = ob | (static_cast<u64>(op) << 48) | (ia * S.size() + ib);
          i64 g = 0;
          int sg = guarded([&]{ g = s->fm_bin(op, a, b); });
          if( sg ) { c.trap(s, op == B_DIV ? "operator / (fixed,fixed)" : "operator /= (fixed,fixed)", "vv", a, "b", to_s(b), sg, "ff", {to_s(op), to_s(a), to_s(b)}, ord, lv); ++br[2]; continue; }
          c.ff(s, op, a, b, g, ord, lv, br);
          if( row_ok ) c.ff(s, op, a, b, out[ib], ord, lv);
          }
        std::lock_guard<std::mutex> g(m); for( int i = 0; i < 5; ++i ) brs[i] += br[i];
        });
      u64 n = static_cast<u64>(S.size()) * S.size(); rec.add_states(n, 2*n, 2*n);
      rec.count("branch.ff.zero_divisor", brs[0]); rec.count("branch.ff.dividend_below_2^31", brs[1]); rec.count("branch.ff.dividend_at_least_2^31", brs[2]);
      }
    // ---- digit-pattern words D^2 (corners of limb-wise division: quotient-digit estimates, add-back)
    for( int op : { B_DIV, B_DIVEQ } )
      {
      parallel_blocks(Dg.size(), o.threads, [&](size_t ia, int) {
        LocalViol lv(rec); std::vector<i64> out(Dg.size());
        i64 a = Dg[ia];
        int sig = guarded([&]{ s->fm_bin_row(op, a, Dg.data(), Dg.size(), out.data()); });
        for( size_t ib = 0; ib < Dg.size(); ++ib )
          {
          i64 b = Dg[ib]; u64 ord = ob | (static_cast<u64>(0x40 | op) << 48) | (ia * Dg.size() + ib);
          if( sig ) { i64 g = 0; int sg = guarded([&]{ g = s->fm_bin(op, a, b); }); if( sg ) c.trap(s, "operator / (fixed,fixed)", "digit patterns", a, "b", to_s(b), sg, "ff", {to_s(op), to_s(a), to_s(b)}, ord, lv); else c.ff(s, op, a, b, g, ord, lv); }
          else c.ff(s, op, a, b, out[ib], ord, lv);
          }
        });
      u64 n = static_cast<u64>(Dg.size()) * Dg.size(); rec.add_states(n, n, n); rec.count("digit_pattern_pairs", n);
      }
    // ---- x /= x with the same object on both sides
    {
    LocalViol lv(rec);
    for( size_t i = 0; i < S.size(); ++i )
      { i64 x = S[i], g = 0; int sg = guarded([&]{ g = s->fm_un(U_DIVEQ_SELF, x); });
        if( sg ) c.trap(s, "x /= x (same object)", "", x, "b", to_s(x), sg, "self", {to_s(x)}, ob | (6ull << 48) | i, lv); else c.ff(s, B_DIVEQ, x, x, g, ob | (6ull << 48) | i, lv); }
    rec.add_states(S.size(), S.size(), S.size());
    }
    // ---- dense fraction windows: every low-16-bit pattern of the divisor (and of the dividend) at every magnitude
    {
    std::vector<i64> As { 1, 3, 65536, 98304, 1ll<<20, (1ll<<31) + 12345, 1ll<<32, (1ll<<40) + 1, 0x5555555555ll, 1ll<<46, (1ll<<47) - 1, 1ll<<47, 0x6487ed5110b4ll, 1ll<<55, 1ll<<62, 0x5555555555555555ll, 0x7fb9e1c83a6d2f05ll, FX_MAX };
    size_t na = As.size(); for( size_t i = 0; i < na; ++i ) As.push_back(-As[i]);
    std::vector<i64> bases { 0 }; for( int e = 16; e <= 62; ++e ) { bases.push_back(1ll << e); bases.push_back(-(1ll << e)); if( e < 62 ) bases.push_back(3ll << (e - 1)); }
    for( int op : { B_DIV, B_DIVEQ } ) for( int swap = 0; swap < 2; ++swap )
      parallel_blocks(bases.size(), o.threads, [&](size_t bi, int) {
        LocalViol lv(rec); std::vector<i64> bw(65536), out(65536), av(65536);
        for( size_t t = 0; t < 65536; ++t ) bw[t] = bases[bi] + static_cast<i64>(t);
        for( size_t ai = 0; ai < As.size(); ++ai )
          {
          int sig;
          if( !swap ) sig = guarded([&]{ s->fm_bin_row(op, As[ai], bw.data(), bw.size(), out.data()); });
          else { std::fill(av.begin(), av.end(), As[ai]); sig = guarded([&]{ s->fm_bin_batch(op, bw.data(), av.data(), bw.size(), out.data()); }); }
          for( size_t t = 0; t < 65536; ++t )
            {
            i64 a = swap ? bw[t] : As[ai], b = swap ? As[ai] : bw[t];
            u64 ord = ob | (7ull << 48) | (static_cast<u64>(op) << 44) | (static_cast<u64>(swap) << 43) | ((bi * As.size() + ai) << 16) | t;
            if( sig ) { i64 g = 0; int sg = guarded([&]{ g = s->fm_bin(op, a, b); }); if( sg ) c.trap(s, "operator / (fixed,fixed)", "dense window", a, "b", to_s(b), sg, "ff", {to_s(op), to_s(a), to_s(b)}, ord, lv); else c.ff(s, op, a, b, g, ord, lv); }
            else c.ff(s, op, a, b, out[t], ord, lv);
            }
          }
        });
    u64 n = static_cast<u64>(bases.size()) * As.size() * 65536 * 4; rec.add_states(n, n, n); rec.count("dense_fraction_window_states", n);
    }
    for( int t : INT_TYPES ) for( int ord : { O_FIX_T, O_ASSIGN } )
      {
      std::vector<u64> const& ns = tv[t];
      std::mutex m; u64 brs[5] = {0,0,0,0,0};
      parallel_blocks(ns.size(), o.threads, [&](size_t in, int) {
        LocalViol lv(rec); u64 br[5] = {0,0,0,0,0};
        std::vector<u64> out(Sa.size());
        int sig = guarded([&]{ s->fm_mixed_col(M_DIV, t, ord, Sa.data(), Sa.size(), ns[in], out.data()); });
        for( size_t ia = 0; ia < Sa.size(); ++ia )
          {
          u64 od = ob | (static_cast<u64>(8 + t) << 48) | (static_cast<u64>(ord) << 44) | (in * Sa.size() + ia);
          if( sig == 0 ) c.scalar(s, t, ord, Sa[ia], ns[in], static_cast<i64>(out[ia]), od, lv, br);
          else
            {
            u64 g = 0; int sg = guarded([&]{ g = s->fm_mixed(M_DIV, t, ord, Sa[ia], ns[in]); });
            if( sg ) c.trap(s, std::string("operator / (") + ORDN[ord] + ")", TN[t], Sa[ia], "n", int_s(t, ns[in]), sg, "sc", {to_s(t), to_s(ord), to_s(Sa[ia]), to_su(ns[in])}, od, lv);
            else c.scalar(s, t, ord, Sa[ia], ns[in], static_cast<i64>(g), od, lv, br);
            }
          }
        std::lock_guard<std::mutex> g(m); for( int i = 0; i < 5; ++i ) brs[i] += br[i];
        });
      u64 n = static_cast<u64>(ns.size()) * Sa.size(); rec.add_states(n, n, n);
      rec.count("branch.scalar.zero_divisor", brs[3]); rec.count("branch.scalar.nonzero_divisor", brs[4]);
      }
    }
  // ---- 128-bit divisors: `__int128` is an integral type in the GNU dialects only; the shims of those configurations export it
  {
  std::vector<i128> N128;
  for( i128 hi : { static_cast<i128>(0), static_cast<i128>(1), static_cast<i128>(5), static_cast<i128>(0x7fffffffffffffffll), static_cast<i128>(1) << 36 } )
    for( i128 lo : { static_cast<i128>(0), static_cast<i128>(1), static_cast<i128>(3), static_cast<i128>(65536), static_cast<i128>(0x7fffffffffffffffll), static_cast<i128>(1) << 63, (static_cast<i128>(1) << 64) - 1 } )
      { i128 v = (hi << 64) + lo; N128.push_back(v); N128.push_back(-v); }
  N128.push_back(-(static_cast<i128>(1) << 126) - (static_cast<i128>(1) << 126));       // INT128_MIN
  std::sort(N128.begin(), N128.end()); N128.erase(std::unique(N128.begin(), N128.end()), N128.end());
  int c128 = rec.cls("C03.div_scalar.int128_divisor_wrong");
  for( size_t ci = 0; ci < shims.size(); ++ci )
    {
    Shim* s = shims[ci]; if( !s->fm_has_int128() ) continue;
    rec.count("configs_with_int128_divisors", 1);
    LocalViol lv(rec); u64 n = 0;
    for( size_t in = 0; in < N128.size(); ++in ) for( size_t ia = 0; ia < Sa.size(); ++ia ) for( int ord : { O_FIX_T, O_ASSIGN } )
      {
      i128 nn = N128[in]; i64 a = Sa[ia], g = 0; ++n;
      int sg = guarded([&]{ g = s->fm_mixed128(M_DIV, 0, ord, a, static_cast<u64>(static_cast<u128>(nn) >> 64), static_cast<u64>(static_cast<u128>(nn))); });
      bool ok = !sg && (nn == 0 ? fx_isnan(g) : g == static_cast<i64>(static_cast<i128>(a) / nn));
      // INT128_MIN: a / INT128_MIN is 0 for every 64-bit a; the negation inside an implementation must not trap
      if( !ok ) lv.hit(c128, (static_cast<u64>(ci) << 56) | (0x60ull << 48) | ((in * Sa.size() + ia) << 1) | static_cast<u64>(ord == O_ASSIGN), [=]{ return ex1(s, std::string("operator / (") + ORDN[ord] + ")", "__int128", {{"a",to_s(a)},{"n",to_s128(nn)}},
             nn == 0 ? "NaN (division by zero)" : to_s128(static_cast<i128>(a) / nn), sg ? "killed by signal " + std::to_string(sg) : to_s(g), "sc128", {to_s(ord), to_s(a), to_su(static_cast<u64>(static_cast<u128>(nn) >> 64)), to_su(static_cast<u64>(static_cast<u128>(nn)))}); });
      }
    rec.add_states(n, n, n);
    }
  }
  { i64 g = 0; int sg = guarded([&]{ g = shims[0]->fm_bin(B_DIV, -(1ll<<47), -1); });
    rec.sample("(-2^31) / (raw -1): " + (sg ? std::string("signal ") + std::to_string(sg) : to_s(g))); }
  rec.sample("1 / 3 -> raw " + to_s(shims[0]->fm_bin(B_DIV, 65536, 3*65536)) + "; 7 / 0 -> " + to_s(shims[0]->fm_bin(B_DIV, 7*65536, 0)));
  }
void replay03(Options const& o, Shim* s, Recorder& rec)
  {
  C03 c(rec); DirectViol d{rec};
  if( o.rcase == "ff" ) { int op = static_cast<int>(parse_i64(o.rin.at(0))); i64 a = parse_i64(o.rin.at(1)), b = parse_i64(o.rin.at(2));
    i64 g = 0; int sg = guarded([&]{ g = s->fm_bin(op, a, b); });
    if( sg ) c.trap(s, "operator /", "vv", a, "b", to_s(b), sg, o.rcase, o.rin, 0, d); else c.ff(s, op, a, b, g, 0, d);
    i64 out = 0; sg = guarded([&]{ s->fm_bin_row(op, a, &b, 1, &out); });
    if( sg ) c.trap(s, "operator /", "loop", a, "b", to_s(b), sg, o.rcase, o.rin, 0, d); else c.ff(s, op, a, b, out, 0, d); }
  else if( o.rcase == "sc128" )
    { int ord = static_cast<int>(parse_i64(o.rin.at(0))); i64 a = parse_i64(o.rin.at(1)); u64 hi = parse_u64(o.rin.at(2)), lo = parse_u64(o.rin.at(3));
      i128 nn = static_cast<i128>((static_cast<u128>(hi) << 64) | lo); i64 g = 0; int sg = guarded([&]{ g = s->fm_mixed128(M_DIV, 0, ord, a, hi, lo); });
      bool ok = !sg && (nn == 0 ? fx_isnan(g) : g == static_cast<i64>(static_cast<i128>(a) / nn));
      if( !ok ) rec.viol(rec.cls("C03.div_scalar.int128_divisor_wrong"), 0, [&]{ return ex1(s, "operator / (fixed, __int128)", "", {{"a",to_s(a)},{"n",to_s128(nn)}}, nn == 0 ? "NaN" : to_s128(static_cast<i128>(a) / nn), sg ? "signal" : to_s(g), o.rcase, o.rin); }); }
  else if( o.rcase == "self" ) { i64 x = parse_i64(o.rin.at(0)); i64 g = 0; int sg = guarded([&]{ g = s->fm_un(U_DIVEQ_SELF, x); });
    if( sg ) c.trap(s, "x /= x (same object)", "", x, "b", to_s(x), sg, o.rcase, o.rin, 0, d); else c.ff(s, B_DIVEQ, x, x, g, 0, d); }
  else { int t = static_cast<int>(parse_i64(o.rin.at(0))), ord = static_cast<int>(parse_i64(o.rin.at(1))); i64 a = parse_i64(o.rin.at(2)); u64 n = parse_u64(o.rin.at(3));
    u64 g = 0; int sg = guarded([&]{ g = s->fm_mixed(M_DIV, t, ord, a, n); });
    if( sg ) c.trap(s, "operator / scalar", TN[t], a, "n", int_s(t, n), sg, o.rcase, o.rin, 0, d); else c.scalar(s, t, ord, a, n, static_cast<i64>(g), 0, d); }
  rec.add_states(1,1,1);
  }
bool judge02(Shim* s, Recorder& rec, std::string const& kind, std::vector<u64> const& a, u64 value, u64 idx)
  {
  C02 c(rec); DirectViol d{rec};
  if( kind == "bin" && a.size() == 3 && (a[0] == B_MUL || a[0] == B_MULEQ) )
    { i64 x = static_cast<i64>(a[1]), y = static_cast<i64>(a[2]); if( fx_finite(x) && fx_finite(y) ) c.ff(s, static_cast<int>(a[0]), x, y, static_cast<i64>(value), idx, d); return true; }
  if( kind == "un" && a.size() == 2 && a[0] == U_MULEQ_SELF )
    { i64 x = static_cast<i64>(a[1]); if( fx_finite(x) ) c.ff(s, B_MULEQ, x, x, static_cast<i64>(value), idx, d); return true; }
  if( kind == "mixed" && a.size() == 5 && a[0] == M_MUL && is_int_type(static_cast<int>(a[1])) )
    { i64 x = static_cast<i64>(a[3]); if( fx_finite(x) ) c.scalar(s, static_cast<int>(a[1]), static_cast<int>(a[2]), x, a[4], static_cast<i64>(value), idx, d); return true; }
  return false;
  }
bool judge03(Shim* s, Recorder& rec, std::string const& kind, std::vector<u64> const& a, u64 value, u64 idx)
  {
  C03 c(rec); DirectViol d{rec};
  if( kind == "bin" && a.size() == 3 && (a[0] == B_DIV || a[0] == B_DIVEQ) )
    { i64 x = static_cast<i64>(a[1]), y = static_cast<i64>(a[2]); if( fx_finite(x) && fx_finite(y) ) c.ff(s, static_cast<int>(a[0]), x, y, static_cast<i64>(value), idx, d); return true; }
  if( kind == "un" && a.size() == 2 && a[0] == U_DIVEQ_SELF )
    { i64 x = static_cast<i64>(a[1]); if( fx_finite(x) ) c.ff(s, B_DIVEQ, x, x, static_cast<i64>(value), idx, d); return true; }
  if( kind == "mixed" && a.size() == 5 && a[0] == M_DIV && is_int_type(static_cast<int>(a[1])) && (a[2] == O_FIX_T || a[2] == O_ASSIGN) )
    { i64 x = static_cast<i64>(a[3]); if( fx_finite(x) ) c.scalar(s, static_cast<int>(a[1]), static_cast<int>(a[2]), x, a[4], static_cast<i64>(value), idx, d); return true; }
  return false;
  }
}
REGISTER_PROPERTY(C02, explore02, replay02)
REGISTER_JUDGE(C02, judge02)
REGISTER_JUDGE(C03, judge03)
REGISTER_PROPERTY(C03, explore03, replay03)
