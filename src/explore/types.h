// helpers about the ten non-fixed operand types
#pragma once
#include "common.h"
static const char* const TN[14] = { "int8_t", "int16_t", "int32_t", "int64_t", "uint8_t", "uint16_t", "uint32_t", "uint64_t", "float", "double", "fixed_t", "long long", "unsigned long long", "char" };
static const int TBITS[14] = { 8, 16, 32, 64, 8, 16, 32, 64, 0, 0, 0, 64, 64, 8 };
// the ten integral operand types: the eight fixed-width ones plus long long / unsigned long long (distinct from (u)int64_t = (unsigned) long on LP64)
static const int INT_TYPES[10] = { T_I8, T_I16, T_I32, T_I64, T_U8, T_U16, T_U32, T_U64, T_LL, T_ULL };
static const int ALL_TYPES[12] = { T_I8, T_I16, T_I32, T_I64, T_U8, T_U16, T_U32, T_U64, T_LL, T_ULL, T_F32, T_F64 };
inline bool is_int_type(int t) { return t < 8 || t == T_LL || t == T_ULL || t == T_CHAR; }
inline bool t_signed(int t) { return t < 4 || t == T_LL || t == T_CHAR; }
inline i128 floor_div(i128 x, i128 d) { i128 q = x / d; if( (x % d != 0) && ((x < 0) != (d < 0)) ) --q; return q; }
// mathematical value of the integer carried by 'bits' for integral type t
inline i128 int_value(int t, u64 bits)
  {
  int w = TBITS[t];
  if( t_signed(t) ) { if( w == 64 ) return static_cast<i64>(bits); return static_cast<i64>(bits << (64 - w)) >> (64 - w); }
  if( w == 64 ) return static_cast<i128>(bits);
  return static_cast<i128>(bits & ((1ull << w) - 1));
  }
inline i128 t_min(int t) { return t_signed(t) ? -(static_cast<i128>(1) << (TBITS[t] - 1)) : 0; }
inline i128 t_max(int t) { return t_signed(t) ? (static_cast<i128>(1) << (TBITS[t] - 1)) - 1 : (static_cast<i128>(1) << TBITS[t]) - 1; }
inline u64 t_mask(int t) { return TBITS[t] == 64 ? ~0ull : ((1ull << TBITS[t]) - 1); }
// canonical bit patterns (masked to the type's width) of an integral type's test values:
// 8- and 16-bit types: every value (unless 'small' asks for S-shaped 16-bit values); 32/64-bit: S(w,r)-shaped values and boundary windows
inline std::vector<u64> int_type_values(int t, int w, int r, i64 window, bool full16 = true)
  {
  std::vector<u64> v;
  if( TBITS[t] == 8 || (TBITS[t] == 16 && full16) ) { for( u64 b = 0; b < (1ull << TBITS[t]); ++b ) v.push_back(b); return v; }
  for( i64 x : S_set(w, r, true, true) ) v.push_back(static_cast<u64>(x) & t_mask(t));
  for( i128 c : { static_cast<i128>(0), static_cast<i128>(1) << 15, static_cast<i128>(1) << 16, static_cast<i128>(2147483647ll), static_cast<i128>(1) << 31, static_cast<i128>(1) << 32, static_cast<i128>(1) << 63, (static_cast<i128>(1) << 64) - 1 } )
    for( i64 d = -window; d <= window; ++d ) { v.push_back(static_cast<u64>(c + d) & t_mask(t)); v.push_back(static_cast<u64>(-c + d) & t_mask(t)); }
  for( i64 x : D_set(0) ) v.push_back(static_cast<u64>(x) & t_mask(t));          // digit-pattern words (32-bit digits), see common.h
  if( TBITS[t] == 32 ) for( u64 hi : { 0ull, 1ull, 0x7fffull, 0x8000ull, 0xfffeull, 0xffffull, 0x5555ull, 0xaaaaull } ) for( u64 lo : { 0ull, 1ull, 0x7fffull, 0x8000ull, 0xfffeull, 0xffffull, 0x5555ull, 0xaaaaull } ) v.push_back((hi << 16) | lo);
  std::sort(v.begin(), v.end()); v.erase(std::unique(v.begin(), v.end()), v.end());
  return v;
  }
inline std::string int_s(int t, u64 bits) { return to_s128(int_value(t, bits)); }
