// C04 integer <-> fixed, C05 floating <-> fixed. Exact integer oracles (IEEE bit patterns are decoded by hand).
#include "common.h"
#include "types.h"

namespace {
const char* FIN[3] = { "fixed_t{n}", "integral_to_fixed", "make_fixed" };
const char* TIN[3] = { "fixed_to_integral", "static_cast<T>", "fixed_to_arithmetic" };

//====================================================================== C04
struct C04
  {
  Recorder& rec; int c_in, c_nan, c_promo, c_to, c_rt;
  explicit C04(Recorder& r) : rec(r), c_in(r.cls("C04.int_to_fixed.in_range_wrong")), c_nan(r.cls("C04.int_to_fixed.out_of_range_not_nan")),
     c_promo(r.cls("C04.implicit_promotion_wrong")), c_to(r.cls("C04.fixed_to_int_wrong")), c_rt(r.cls("C04.round_trip_wrong")) {}
  static bool in_range(i128 n) { return n >= -2147483647ll && n <= 2147483647ll; }
  template<typename V> void from_int(Shim* s, int how, int t, u64 bits, i64 got, u64 order, V& lv)
    {
    i128 n = int_value(t, bits);
    if( in_range(n) )
      { if( got != static_cast<i64>(n) * 65536 ) lv.hit(c_in, order, [=]{ return ex1(s, FIN[how], TN[t], {{"n",to_s128(n)}}, to_s(static_cast<i64>(n)*65536), to_s(got), "from", {to_s(how), to_s(t), to_su(bits)}); }); }
    else if( !fx_isnan(got) ) lv.hit(c_nan, order, [=]{ return ex1(s, FIN[how], TN[t], {{"n",to_s128(n)}}, "NaN", to_s(got), "from", {to_s(how), to_s(t), to_su(bits)}); });
    }
  // implicit promotion in mixed + / - with the other operand 0 (and n / 1): the result is the promoted value itself
  template<typename V> void promo(Shim* s, int form, int t, u64 bits, u64 order, V& lv)
    {
    i128 n = int_value(t, bits);
    i64 got; const char* what; i128 sign = 1;
    switch(form)
      {
      case 0: got = static_cast<i64>(s->fm_mixed(M_ADD, t, O_FIX_T, 0, bits)); what = "fixed_t(0) + n"; break;
      case 1: got = static_cast<i64>(s->fm_mixed(M_ADD, t, O_T_FIX, 0, bits)); what = "n + fixed_t(0)"; break;
      case 2: got = static_cast<i64>(s->fm_mixed(M_ADD, t, O_ASSIGN, 0, bits)); what = "x = 0; x += n"; break;
      case 3: got = static_cast<i64>(s->fm_mixed(M_SUB, t, O_T_FIX, 0, bits)); what = "n - fixed_t(0)"; break;
      case 5: got = static_cast<i64>(s->fm_mixed(M_DIV, t, O_T_FIX, 65536, bits)); what = "n / fixed_t(1)"; break;
      case 6: got = static_cast<i64>(s->fm_mixed(M_SUB, t, O_ASSIGN, 0, bits)); what = "x = 0; x -= n"; sign = -1; break;   // integral dividend: promoted (only fixed*n, n*fixed, fixed/n use the integer itself)
      default: got = static_cast<i64>(s->fm_mixed(M_SUB, t, O_FIX_T, 0, bits)); what = "fixed_t(0) - n"; sign = -1; break;
      }
    bool ok = in_range(n) ? got == static_cast<i64>(sign * n * 65536) : fx_isnan(got);
    if( !ok ) lv.hit(c_promo, order, [=]{ return ex1(s, what, TN[t], {{"n",to_s128(n)}}, in_range(n) ? to_s128(sign*n*65536) : "NaN", to_s(got), "promo", {to_s(form), to_s(t), to_su(bits)}); });
    }
  // the same clause for a result obtained elsewhere (constant evaluation); false when (op, order, a) is not one of the promotion forms
  template<typename V> bool promo_value(Shim* s, int op, int t, int ord, i64 a, u64 bits, i64 got, u64 order, V& lv)
    {
    i128 n = int_value(t, bits); i128 sign = 1; const char* what;
    if( op == M_ADD && a == 0 ) what = ord == O_FIX_T ? "fixed_t(0) + n" : ord == O_T_FIX ? "n + fixed_t(0)" : "x = 0; x += n";
    else if( op == M_SUB && a == 0 && ord == O_T_FIX ) what = "n - fixed_t(0)";
    else if( op == M_SUB && a == 0 ) { what = ord == O_FIX_T ? "fixed_t(0) - n" : "x = 0; x -= n"; sign = -1; }
    else if( op == M_DIV && a == 65536 && ord == O_T_FIX ) what = "n / fixed_t(1)";
    else return false;
    bool ok = in_range(n) ? got == static_cast<i64>(sign * n * 65536) : fx_isnan(got);
    if( !ok ) lv.hit(c_promo, order, [=]{ return ex1(s, what, TN[t], {{"n",to_s128(n)}}, in_range(n) ? to_s128(sign*n*65536) : "NaN", to_s(got), "promo", {}); });
    return true;
    }
  static u64 to_int_model(int t, i64 x)
    {
    i128 k = floor_div(x, 65536);
    if( k < t_min(t) || k > t_max(t) ) return 0;
    return static_cast<u64>(static_cast<i64>(k));        // sign- or zero-extended, as the shim returns it
    }
  template<typename V> void to_int(Shim* s, int how, int t, i64 x, u64 got, u64 order, V& lv)
    {
    u64 e = to_int_model(t, x);
    if( got != e ) lv.hit(c_to, order, [=]{ return ex1(s, TIN[how], TN[t], {{"x",to_s(x)}}, t_signed(t) ? to_s(static_cast<i64>(e)) : to_su(e),
                                                     t_signed(t) ? to_s(static_cast<i64>(got)) : to_su(got), "to", {to_s(how), to_s(t), to_s(x)}); });
    }
  template<typename V> void round_trip(Shim* s, int t, u64 bits, u64 order, V& lv)
    {
    i128 n = int_value(t, bits);
    if( !in_range(n) ) return;
    i64 fxv = s->fm_from_int(FI_CTOR, t, bits);
    u64 back = s->fm_to_int(TI_STATIC_CAST, t, fxv);
    if( static_cast<i128>(t_signed(t) ? static_cast<i128>(static_cast<i64>(back)) : static_cast<i128>(back)) != n )
      lv.hit(c_rt, order, [=]{ return ex1(s, "n -> fixed_t -> T", TN[t], {{"n",to_s128(n)}}, to_s128(n), to_su(back), "rt", {to_s(t), to_su(bits)}); });
    }
  };

std::vector<u64> int_inputs64(bool th)
  {
  std::vector<u64> v;
  for( i64 x : S_set(th ? 8 : 6, 4, true, true) ) v.push_back(static_cast<u64>(x));
  i64 win = th ? (1 << 16) : (1 << 12);
  for( i128 c : { static_cast<i128>(0), static_cast<i128>(2147483647ll), static_cast<i128>(1) << 31, static_cast<i128>(1) << 32, (static_cast<i128>(1) << 63), (static_cast<i128>(1) << 64) - 1 } )
    for( i64 d = -win; d <= win; ++d ) { v.push_back(static_cast<u64>(c + d)); v.push_back(static_cast<u64>(-c + d)); }
  std::sort(v.begin(), v.end()); v.erase(std::unique(v.begin(), v.end()), v.end());
  return v;
  }

void explore04(Options const& o, std::vector<Shim*> const& shims, std::vector<Shim*> const&, Recorder& rec)
  {
  bool th = o.tier == "thorough";
  C04 c(rec);
  std::vector<u64> in64 = int_inputs64(th);
  std::vector<i64> Sx = merge_sets(th ? S_set(10,6) : S_set(8,4), S2_set(th ? 3 : 2));
  // fixed -> int inputs: S u windows around every target limit u dense interval
  {
  i64 win = th ? (1<<16) : (1<<12);
  std::vector<i64> extra;
  for( int t : INT_TYPES )
    for( i128 lim : { t_min(t), t_max(t) + 1, t_min(t) - 1, t_max(t) } )
      for( i64 d = -win; d <= win; ++d ) { i128 v = lim * 65536 + d; if( v >= FX_LOWEST && v <= FX_MAX ) extra.push_back(static_cast<i64>(v)); }
  Sx.insert(Sx.end(), extra.begin(), extra.end());
  std::sort(Sx.begin(), Sx.end()); Sx.erase(std::unique(Sx.begin(), Sx.end()), Sx.end());
  }
  i64 D = th ? (1ll<<24) : (1ll<<20);
  rec.note("alphabet", std::string("int->fixed: every value of the 8- and 16-bit types, ") + (th ? "every value of int32/uint32 for all three entry points" : "every value of int32/uint32 through the constructor and dense windows for the other entry points")
           + ", " + std::to_string(in64.size()) + " 64-bit values (S u windows at 0, +-(2^31-1), +-2^31, +-2^32, 2^63, 2^64-1); fixed->int: " + std::to_string(Sx.size())
           + " values (S u windows at every target-type limit) u every raw in [-" + to_s(D) + "," + to_s(D) + "] x 8 targets x 3 entry points");
  for( size_t ci = 0; ci < shims.size(); ++ci )
    {
    Shim* s = shims[ci];
    u64 ob = static_cast<u64>(ci) << 56;
    for( int t : INT_TYPES )
      {
      for( int how = 0; how < FI_COUNT; ++how )
        {
        u64 ob2 = ob | (static_cast<u64>(t) << 52) | (static_cast<u64>(how) << 48);
        if( TBITS[t] <= 32 )
          {
          bool full32 = TBITS[t] < 32 || th || how == FI_CTOR;
          std::vector<std::pair<u64,u64>> ranges;   // [start, count)
          if( full32 ) ranges.push_back({0, 1ull << TBITS[t]});
          else for( u64 c : { 0ull, 0x7fffffffull, 0x80000000ull, 0xffffffffull } ) { u64 lo = c > (1u<<18) ? c - (1u<<18) : 0; u64 hi = std::min<u64>(c + (1u<<18), 1ull<<32); ranges.push_back({lo, hi - lo}); }
          for( auto rg : ranges )
            {
            const u64 B = 1 << 16;
            size_t nb = static_cast<size_t>((rg.second + B - 1) / B);
            parallel_blocks(nb, o.threads, [&](size_t blk, int) {
              LocalViol lv(rec);
              u64 st = rg.first + blk * B; size_t n = static_cast<size_t>(std::min<u64>(B, rg.second - blk * B));
              std::vector<i64> out(n);
              s->fm_from_int_range(how, t, st, n, out.data());
              for( size_t i = 0; i < n; ++i ) c.from_int(s, how, t, st + i, out[i], ob2 | (st + i), lv);
              });
            rec.add_states(rg.second, rg.second, rg.second);
            }
          }
        else
          {
          LocalViol lv(rec);
          for( size_t i = 0; i < in64.size(); ++i ) c.from_int(s, how, t, in64[i], s->fm_from_int(how, t, in64[i]), ob2 | i, lv);
          rec.add_states(in64.size(), in64.size(), in64.size());
          }
        }
      // implicit promotion and round trip
      {
      std::vector<u64> vals;
      if( TBITS[t] <= 16 ) for( u64 b = 0; b < (1ull << TBITS[t]); ++b ) vals.push_back(b);
      else if( TBITS[t] == 32 ) { for( u64 cc : { 0ull, 0x7fffffffull, 0x80000000ull, 0xffffffffull } ) for( i64 d = -4096; d <= 4096; ++d ) vals.push_back(static_cast<u64>(static_cast<i64>(cc) + d) & 0xffffffffull);
                                  for( i64 x : S_set(6,2) ) vals.push_back(static_cast<u64>(x) & 0xffffffffull); }
      else vals = in64;
      std::sort(vals.begin(), vals.end()); vals.erase(std::unique(vals.begin(), vals.end()), vals.end());
      const size_t B = 4096; size_t nb = (vals.size() + B - 1) / B;
      parallel_blocks(nb, o.threads, [&](size_t blk, int) {
        LocalViol lv(rec);
        for( size_t i = blk * B; i < std::min(vals.size(), (blk + 1) * B); ++i )
          {
          for( int form = 0; form < 7; ++form ) c.promo(s, form, t, vals[i], ob | (static_cast<u64>(t) << 52) | (9ull << 48) | (i * 8 + static_cast<u64>(form)), lv);
          c.round_trip(s, t, vals[i], ob | (static_cast<u64>(t) << 52) | (10ull << 48) | i, lv);
          }
        });
      rec.add_states(vals.size() * 7, vals.size() * 8, vals.size() * 7);
      }
      // fixed -> T
      for( int how = 0; how < TI_COUNT; ++how )
        {
        u64 ob2 = ob | (static_cast<u64>(t) << 52) | (static_cast<u64>(4 + how) << 48);
        const size_t B = 8192;
        size_t nb = (Sx.size() + B - 1) / B;
        parallel_blocks(nb, o.threads, [&](size_t blk, int) {
          LocalViol lv(rec);
          size_t lo = blk * B, hi = std::min(Sx.size(), lo + B);
          std::vector<u64> out(hi - lo);
          s->fm_to_int_batch(how, t, Sx.data() + lo, hi - lo, out.data());
          for( size_t i = lo; i < hi; ++i ) c.to_int(s, how, t, Sx[i], out[i - lo], ob2 | i, lv);
          });
        rec.add_states(Sx.size(), Sx.size(), Sx.size());
        u64 total = static_cast<u64>(2 * D + 1); size_t nb2 = static_cast<size_t>((total + B - 1) / B);
        parallel_blocks(nb2, o.threads, [&](size_t blk, int) {
          LocalViol lv(rec);
          size_t n = static_cast<size_t>(std::min<u64>(B, total - blk * B));
          std::vector<i64> in(n); std::vector<u64> out(n);
          for( size_t i = 0; i < n; ++i ) in[i] = -D + static_cast<i64>(blk * B + i);
          s->fm_to_int_batch(how, t, in.data(), n, out.data());
          for( size_t i = 0; i < n; ++i ) c.to_int(s, how, t, in[i], out[i], ob2 | (1ull << 40) | (blk * B + i), lv);
          });
        rec.add_states(total, total, total);
        }
      }
    }
  // two conversions of the same object inside one function, with a modification in between (stale-value check)
  {
  int c_seq = rec.cls("C04.fixed_to_int.second_conversion_of_modified_object_wrong");
  std::vector<i64> sv { 0, 65536, -65536, 98304, -98305, 127 * 65536 + 1, -128 * 65536, 255 * 65536 + 65535, 256 * 65536, 32767ll * 65536, -32768ll * 65536 - 1, 65535ll * 65536, (1ll << 31) * 65536 - 1, -(1ll << 31) * 65536, (1ll << 32) * 65536 - 65536, 1ll << 62, FX_MAX, FX_LOWEST, 5, -5 };
  for( size_t ci = 0; ci < shims.size(); ++ci )
    {
    Shim* s = shims[ci]; LocalViol lv(rec); u64 n = 0;
    for( int t : INT_TYPES ) for( size_t i = 0; i < sv.size(); ++i ) for( size_t j = 0; j < sv.size(); ++j )
      {
      u64 r1 = 0, r2 = 0; s->fm_seq_conv(t, sv[i], sv[j], &r1, &r2); ++n;
      u64 e1 = C04::to_int_model(t, sv[i]), e2 = C04::to_int_model(t, sv[j]);
      if( r1 != e1 || r2 != e2 ) { i64 a = sv[i], b = sv[j]; lv.hit(c_seq, (static_cast<u64>(ci) << 56) | (static_cast<u64>(t) << 48) | (i * 64 + j), [=]{ return ex1(s, "static_cast<T>(x); x = b; static_cast<T>(x)", TN[t], {{"a",to_s(a)},{"b",to_s(b)}}, to_su(e1) + ", " + to_su(e2), to_su(r1) + ", " + to_su(r2), "seq", {to_s(t), to_s(a), to_s(b)}); }); }
      }
    rec.add_states(n, n, 2 * n);
    }
  }
  rec.sample("fixed_t{int32_t(-2147483648)} -> " + to_s(shims[0]->fm_from_int(FI_CTOR, T_I32, 0x80000000ull)) + " (NaN expected); fixed_t{uint32_t(2147483647)} -> " + to_s(shims[0]->fm_from_int(FI_CTOR, T_U32, 0x7fffffffull)));
  rec.sample("static_cast<uint8_t>(300.5) -> " + to_su(shims[0]->fm_to_int(TI_STATIC_CAST, T_U8, 300*65536+32768)) + " (0 expected); static_cast<int8_t>(-0.5) -> " + to_s(static_cast<i64>(shims[0]->fm_to_int(TI_STATIC_CAST, T_I8, -32768))));
  }
void replay04(Options const& o, Shim* s, Recorder& rec)
  {
  C04 c(rec); DirectViol d{rec};
  if( o.rcase == "from" ) { int how = static_cast<int>(parse_i64(o.rin.at(0))), t = static_cast<int>(parse_i64(o.rin.at(1))); u64 b = parse_u64(o.rin.at(2));
                            c.from_int(s, how, t, b, s->fm_from_int(how, t, b), 0, d); i64 out; s->fm_from_int_range(how, t, b, 1, &out); c.from_int(s, how, t, b, out, 0, d); }
  else if( o.rcase == "promo" ) c.promo(s, static_cast<int>(parse_i64(o.rin.at(0))), static_cast<int>(parse_i64(o.rin.at(1))), parse_u64(o.rin.at(2)), 0, d);
  else if( o.rcase == "to" ) { int how = static_cast<int>(parse_i64(o.rin.at(0))), t = static_cast<int>(parse_i64(o.rin.at(1))); i64 x = parse_i64(o.rin.at(2)); c.to_int(s, how, t, x, s->fm_to_int(how, t, x), 0, d); }
  else if( o.rcase == "rt" ) c.round_trip(s, static_cast<int>(parse_i64(o.rin.at(0))), parse_u64(o.rin.at(1)), 0, d);
  else if( o.rcase == "seq" ) { int t = static_cast<int>(parse_i64(o.rin.at(0))); i64 a = parse_i64(o.rin.at(1)), b = parse_i64(o.rin.at(2)); u64 r1 = 0, r2 = 0; s->fm_seq_conv(t, a, b, &r1, &r2);
    if( r1 != C04::to_int_model(t, a) || r2 != C04::to_int_model(t, b) ) rec.viol(rec.cls("C04.fixed_to_int.second_conversion_of_modified_object_wrong"), 0, [&]{ return ex1(s, "two conversions in one function", TN[t], {{"a",to_s(a)},{"b",to_s(b)}}, to_su(C04::to_int_model(t, a)) + ", " + to_su(C04::to_int_model(t, b)), to_su(r1) + ", " + to_su(r2), o.rcase, o.rin); }); }
  rec.add_states(1,1,1);
  }

//====================================================================== C05
struct Fp { bool nan, inf; int sign; u64 M; int E; };     // value = sign * M * 2^E
inline Fp decode32(uint32_t b)
  {
  Fp f{}; f.sign = (b >> 31) ? -1 : 1; uint32_t ex = (b >> 23) & 0xff, m = b & 0x7fffff;
  if( ex == 0xff ) { f.nan = m != 0; f.inf = m == 0; return f; }
  if( ex == 0 ) { f.M = m; f.E = -149; } else { f.M = m | 0x800000u; f.E = static_cast<int>(ex) - 150; }
  return f;
  }
inline Fp decode64(u64 b)
  {
  Fp f{}; f.sign = (b >> 63) ? -1 : 1; u64 ex = (b >> 52) & 0x7ff, m = b & 0xfffffffffffffull;
  if( ex == 0x7ff ) { f.nan = m != 0; f.inf = m == 0; return f; }
  if( ex == 0 ) { f.M = m; f.E = -1074; } else { f.M = m | (1ull << 52); f.E = static_cast<int>(ex) - 1075; }
  return f;
  }
inline int bitlen(u128 v) { u64 hi = static_cast<u64>(v >> 64), lo = static_cast<u64>(v); return hi ? 128 - __builtin_clzll(hi) : lo ? 64 - __builtin_clzll(lo) : 0; }
inline int tz(u128 v) { u64 hi = static_cast<u64>(v >> 64), lo = static_cast<u64>(v); return lo ? __builtin_ctzll(lo) : hi ? 64 + __builtin_ctzll(hi) : 0; }

// returns 0 ok, 1 expected NaN but finite, 2 in range but wrong; *why explains
int from_fp_verdict(int p, Fp const& f, i64 raw, std::string* expect)
  {
  // |v| < 2^31 - 1 ?
  bool in_range;
  if( f.nan || f.inf ) in_range = false;
  else if( f.M == 0 ) in_range = true;
  else if( f.E >= 0 ) in_range = f.E <= 40 && (static_cast<u128>(f.M) << f.E) < 2147483647ull;
  else if( -f.E >= 64 ) in_range = true;
  else in_range = static_cast<u128>(f.M) < (static_cast<u128>(2147483647ull) << (-f.E));
  if( !in_range ) { if( fx_isnan(raw) ) return 0; if( expect ) *expect = "NaN (|v| >= 2^31-1, infinite or NaN)"; return 1; }
  if( f.M == 0 ) { if( raw == 0 ) return 0; if( expect ) *expect = "0"; return 2; }
  int F = f.E + 16;                      // x = M * 2^F is the exact scaled value
  if( F < -70 ) { if( raw == 0 ) return 0; if( expect ) *expect = "0 (|x| < 2^-17)"; return 2; }
  if( raw > (1ll << 48) || raw < -(1ll << 48) ) { if( expect ) *expect = "a value within 1/2 of x"; return 2; }
  int K = (F < 0 ? -F : 0) + 2;
  u128 X = static_cast<u128>(f.M) << (F + K);
  i128 R = static_cast<i128>(raw) * (static_cast<i128>(1) << K);
  i128 sX = f.sign > 0 ? static_cast<i128>(X) : -static_cast<i128>(X);
  i128 diff = R - sX;
  u128 D = diff < 0 ? static_cast<u128>(-diff) : static_cast<u128>(diff);
  u128 half = static_cast<u128>(1) << (K - 1);
  u128 y = X + half;
  u128 delta = 0;
  if( bitlen(y) - tz(y) > p ) delta = static_cast<u128>(1) << (bitlen(y) - p - 1);
  if( D > half + delta ) { if( expect ) *expect = "|raw - v*65536| <= 1/2 (+ one rounding of the scaling step)"; return 2; }
  if( delta == 0 && D == half )
    {
    bool away = f.sign > 0 ? diff > 0 : diff < 0;
    if( !away ) { if( expect ) *expect = "tie must round away from zero"; return 2; }
    }
  return 0;
  }

const char* FFN[3] = { "fixed_t{v}", "floating_point_to_fixed", "make_fixed" };
const char* TFN[2] = { "fixed_to_floating_point", "static_cast" };

struct C05
  {
  Recorder& rec; int c_nan, c_val, c_tod, c_tof, c_rt;
  explicit C05(Recorder& r) : rec(r), c_nan(r.cls("C05.fp_to_fixed.out_of_range_not_nan")), c_val(r.cls("C05.fp_to_fixed.not_nearest")),
     c_tod(r.cls("C05.fixed_to_double_inexact")), c_tof(r.cls("C05.fixed_to_float_not_correctly_rounded")), c_rt(r.cls("C05.round_trip_not_identity")) {}
  template<typename V> void from_fp(Shim* s, int how, int t, u64 bits, i64 got, u64 order, V& lv)
    {
    Fp f = t == T_F32 ? decode32(static_cast<uint32_t>(bits)) : decode64(bits);
    int v = from_fp_verdict(t == T_F32 ? 24 : 53, f, got, nullptr);
    if( v ) lv.hit(v == 1 ? c_nan : c_val, order, [=]{ std::string e; from_fp_verdict(t == T_F32 ? 24 : 53, f, got, &e);
        double dv; if( t == T_F32 ) { uint32_t b = static_cast<uint32_t>(bits); float fl; std::memcpy(&fl,&b,4); dv = fl; } else std::memcpy(&dv,&bits,8);
        return ex1(s, FFN[how], TN[t], {{"bits",hex(bits)},{"v",dbl_s(dv)}}, e, to_s(got), "from", {to_s(how), to_s(t), to_su(bits)}); });
    }
  template<typename V> void to_fp(Shim* s, int how, int t, i64 x, u64 got, u64 order, V& lv)
    {
    if( t == T_F64 )
      {
      if( x > (1ll<<53) || x < -(1ll<<53) ) return;
      double e = static_cast<double>(x) / 65536.0; u64 eb; std::memcpy(&eb, &e, 8);
      if( got != eb && !(x == 0 && (got << 1) == 0) ) lv.hit(c_tod, order, [=]{ return ex1(s, TFN[how], "double", {{"x",to_s(x)}}, hex(eb) + " (" + dbl_s(e) + ")", hex(got), "to", {to_s(how), to_s(t), to_s(x)}); });
      }
    else
      {
      float e = static_cast<float>(x) / 65536.0f; uint32_t eb; std::memcpy(&eb, &e, 4);
      if( got != eb && !(x == 0 && (static_cast<uint32_t>(got) << 1) == 0) ) lv.hit(c_tof, order, [=]{ return ex1(s, TFN[how], "float", {{"x",to_s(x)}}, hex(eb) + " (" + dbl_s(e) + ")", hex(got), "to", {to_s(how), to_s(t), to_s(x)}); });
      }
    }
  template<typename V> void round_trip(Shim* s, i64 x, u64 order, V& lv)
    {
    i64 lim = 2147483647ll * 65536;
    if( x >= lim || x <= -lim ) return;
    u64 d = s->fm_to_fp(TF_STATIC_CAST, T_F64, x);
    i64 back = s->fm_from_fp(FF_CTOR, T_F64, d);
    if( back != x ) lv.hit(c_rt, order, [=]{ return ex1(s, "fixed -> double -> fixed", "", {{"x",to_s(x)}}, to_s(x), to_s(back), "rt", {to_s(x)}); });
    }
  };

// mantissa patterns: top w and bottom w bits enumerated, the middle filled with 0.., 1.., 0101..
std::vector<u64> mant_patterns(int mbits, int w)
  {
  std::vector<u64> v;
  int mid = mbits - 2 * w;
  u64 fills[3] = { 0, (mid > 0 ? ((1ull << mid) - 1) : 0), (mid > 0 ? (0x5555555555555555ull & ((1ull << mid) - 1)) : 0) };
  for( u64 hi = 0; hi < (1ull << w); ++hi ) for( u64 lo = 0; lo < (1ull << w); ++lo ) for( u64 f : fills )
    v.push_back((hi << (mbits - w)) | (f << w) | lo);
  std::sort(v.begin(), v.end()); v.erase(std::unique(v.begin(), v.end()), v.end());
  return v;
  }

void explore05(Options const& o, std::vector<Shim*> const& shims, std::vector<Shim*> const&, Recorder& rec)
  {
  bool th = o.tier == "thorough";
  C05 c(rec);
  // ---- double inputs
  std::vector<u64> dbl;
  {
  auto mp_small = mant_patterns(52, 3);
  for( u64 sg = 0; sg < 2; ++sg ) for( u64 ex = 0; ex < 2048; ++ex ) for( u64 m : mp_small ) dbl.push_back((sg << 63) | (ex << 52) | m);
  auto mp = mant_patterns(52, th ? 8 : 5);
  for( u64 sg = 0; sg < 2; ++sg ) for( u64 ex = 1023 - 22; ex <= 1023 + 33; ++ex ) for( u64 m : mp ) dbl.push_back((sg << 63) | (ex << 52) | m);
  // exact ties k/2^17 (k odd) and exact values, with neighbours at +-1, +-2 ulp(double)
  for( i64 k : S_set(th ? 8 : 6, 4) )
    {
    if( k > (1ll<<52) || k < -(1ll<<52) ) continue;
    double v = static_cast<double>(k) / 131072.0; u64 b; std::memcpy(&b, &v, 8);
    for( int d = -2; d <= 2; ++d ) dbl.push_back(b + static_cast<u64>(static_cast<i64>(d)));
    }
  // the range boundary +-(2^31-1) and +-2^31 with neighbours
  for( double bd : { 2147483647.0, 2147483648.0, 2147483646.0, 0.5, 1.0/131072.0, 32767.5 } )
    for( int sg = 0; sg < 2; ++sg ) { double v = sg ? -bd : bd; u64 b; std::memcpy(&b, &v, 8); for( int d = -(1<<12); d <= (1<<12); ++d ) dbl.push_back(b + static_cast<u64>(static_cast<i64>(d))); }
  std::sort(dbl.begin(), dbl.end()); dbl.erase(std::unique(dbl.begin(), dbl.end()), dbl.end());
  }
  // ---- structured float inputs (all configurations); the complete 2^32 sweep runs on selected configurations
  std::vector<u64> flt;
  {
  auto mp = mant_patterns(23, th ? 8 : 6);
  for( u64 sg = 0; sg < 2; ++sg ) for( u64 ex = 0; ex < 256; ++ex ) for( u64 m : mp ) flt.push_back((sg << 31) | (ex << 23) | m);
  for( float bd : { 2147483648.0f, 2147483520.0f, 0.5f, 8388608.0f, 16777216.0f, 128.0f, 256.0f } )
    for( int sg = 0; sg < 2; ++sg ) { float v = sg ? -bd : bd; uint32_t b; std::memcpy(&b, &v, 4); for( int d = -(1<<12); d <= (1<<12); ++d ) flt.push_back(b + static_cast<uint32_t>(d)); }
  std::sort(flt.begin(), flt.end()); flt.erase(std::unique(flt.begin(), flt.end()), flt.end());
  }
  // ---- fixed inputs for fixed -> fp: S, dense interval, and ties of the float format (halfway points between adjacent floats +- d)
  std::vector<i64> fxs = merge_sets(th ? S_set(10,6) : S_set(8,4), S2_set(th ? 3 : 2));
  {
  auto mp = mant_patterns(23, th ? 5 : 3);
  for( int e = 0; e <= 38; ++e ) for( u64 m : mp )
    {
    u64 M = ((1ull << 23) | m) * 2 + 1;          // 25 bits, last bit = the halfway bit
    i128 base = static_cast<i128>(M) << e;
    for( int d = -2; d <= 2; ++d ) for( int sg = 0; sg < 2; ++sg ) { i128 v = (sg ? -base : base) + d; if( v >= FX_LOWEST && v <= FX_MAX ) fxs.push_back(static_cast<i64>(v)); }
    // the halfway point plus / minus ONE lower bit at every position (the sticky bit of a rounding implementation may sit anywhere below the tie)
    for( int j = 0; j < e; ++j ) for( int sg = 0; sg < 2; ++sg ) for( int pm = -1; pm <= 1; pm += 2 )
      { i128 v = (sg ? -base : base) + pm * (static_cast<i128>(1) << j); if( v >= FX_LOWEST && v <= FX_MAX ) fxs.push_back(static_cast<i64>(v)); }
    }
  auto mpd = mant_patterns(52, 3);
  for( int e = 0; e <= 9; ++e ) for( u64 m : mpd )
    {
    u64 M = ((1ull << 52) | m);
    i128 base = (static_cast<i128>(M) * 2 + 1) << e;
    for( int d = -1; d <= 1; ++d ) { i128 v = base + d; if( v <= FX_MAX ) { fxs.push_back(static_cast<i64>(v)); fxs.push_back(static_cast<i64>(-v)); } }
    }
  std::sort(fxs.begin(), fxs.end()); fxs.erase(std::unique(fxs.begin(), fxs.end()), fxs.end());
  }
  i64 D = th ? (1ll<<26) : (1ll<<22);
  size_t full32_cfgs = 0;
  for( size_t ci = 0; ci < shims.size(); ++ci )
    {
    Shim* s = shims[ci];
    u64 ob = static_cast<u64>(ci) << 56;
    // complete float domain: every configuration in thorough, first gcc and first clang configuration otherwise
    bool full32 = th || ci == 1 || ci == 6 % shims.size();
    for( int how = 0; how < FF_COUNT; ++how )
      {
      u64 ob2 = ob | (static_cast<u64>(how) << 52);
      if( full32 && (how == FF_FLOATING_POINT_TO_FIXED || th) )
        {
        const u64 B = 1 << 16; size_t nb = static_cast<size_t>((1ull << 32) / B);
        parallel_blocks(nb, o.threads, [&](size_t blk, int) {
          LocalViol lv(rec);
          std::vector<i64> out(B);
          uint32_t st = static_cast<uint32_t>(blk * B);
          s->fm_from_f32_range(how, st, B, out.data());
          for( size_t i = 0; i < B; ++i ) c.from_fp(s, how, T_F32, st + static_cast<uint32_t>(i), out[i], ob2 | (1ull << 40) | (st + i), lv);
          });
        rec.add_states(1ull << 32, 1ull << 32, 1ull << 32);
        if( how == FF_FLOATING_POINT_TO_FIXED ) ++full32_cfgs;
        }
      for( int t : { T_F32, T_F64 } )
        {
        std::vector<u64> const& in = t == T_F32 ? flt : dbl;
        const size_t B = 8192; size_t nb = (in.size() + B - 1) / B;
        parallel_blocks(nb, o.threads, [&](size_t blk, int) {
          LocalViol lv(rec);
          size_t lo = blk * B, hi = std::min(in.size(), lo + B);
          std::vector<i64> out(hi - lo);
          s->fm_from_fp_batch(how, t, in.data() + lo, hi - lo, out.data());
          for( size_t i = lo; i < hi; ++i ) c.from_fp(s, how, t, in[i], out[i - lo], ob2 | (static_cast<u64>(t) << 44) | i, lv);
          });
        rec.add_states(in.size(), in.size(), in.size());
        }
      }
    for( int how = 0; how < TF_COUNT; ++how ) for( int t : { T_F32, T_F64 } )
      {
      u64 ob2 = ob | (static_cast<u64>(4 + how) << 52) | (static_cast<u64>(t) << 44);
      const size_t B = 8192; size_t nb = (fxs.size() + B - 1) / B;
      parallel_blocks(nb, o.threads, [&](size_t blk, int) {
        LocalViol lv(rec);
        size_t lo = blk * B, hi = std::min(fxs.size(), lo + B);
        std::vector<u64> out(hi - lo);
        s->fm_to_fp_batch(how, t, fxs.data() + lo, hi - lo, out.data());
        for( size_t i = lo; i < hi; ++i ) c.to_fp(s, how, t, fxs[i], out[i - lo], ob2 | i, lv);
        });
      rec.add_states(fxs.size(), fxs.size(), fxs.size());
      u64 total = static_cast<u64>(2 * D + 1); size_t nb2 = static_cast<size_t>((total + B - 1) / B);
      parallel_blocks(nb2, o.threads, [&](size_t blk, int) {
        LocalViol lv(rec);
        size_t n = static_cast<size_t>(std::min<u64>(B, total - blk * B));
        std::vector<u64> out(n);
        i64 st = -D + static_cast<i64>(blk * B);
        s->fm_to_fp_range(how, t, st, n, out.data());
        for( size_t i = 0; i < n; ++i ) c.to_fp(s, how, t, st + static_cast<i64>(i), out[i], ob2 | (1ull << 40) | (blk * B + i), lv);
        });
      rec.add_states(total, total, total);
      }
    // round trip
    {
    const size_t B = 4096; size_t nb = (fxs.size() + B - 1) / B;
    parallel_blocks(nb, o.threads, [&](size_t blk, int) {
      LocalViol lv(rec);
      for( size_t i = blk * B; i < std::min(fxs.size(), (blk + 1) * B); ++i ) c.round_trip(s, fxs[i], ob | (9ull << 52) | i, lv);
      });
    i64 Dr = th ? (1ll << 24) : (1ll << 20);
    u64 total = static_cast<u64>(2 * Dr + 1); size_t nb2 = static_cast<size_t>((total + B - 1) / B);
    parallel_blocks(nb2, o.threads, [&](size_t blk, int) {
      LocalViol lv(rec);
      for( u64 i = blk * B; i < std::min<u64>(total, (blk + 1) * B); ++i ) c.round_trip(s, -Dr + static_cast<i64>(i), ob | (10ull << 52) | i, lv);
      });
    rec.add_states(fxs.size() + total, 2 * (fxs.size() + total), fxs.size() + total);
    }
    }
  // two conversions of the same object inside one function, with a modification in between (stale-value check)
  {
  int c_seq = rec.cls("C05.fixed_to_fp.second_conversion_of_modified_object_wrong");
  std::vector<i64> sv { 0, 1, -1, 65536, 98304, -163840, 294912, 205887, (1ll << 40) + 3, -(1ll << 46) - 77, (1ll << 53) - 1, 12345678901ll, -98765432109ll, 1ll << 24, (1ll << 24) + 1 };
  for( size_t ci = 0; ci < shims.size(); ++ci )
    {
    Shim* s = shims[ci]; LocalViol lv(rec); u64 n = 0;
    for( int t : { T_F32, T_F64 } ) for( size_t i = 0; i < sv.size(); ++i ) for( size_t j = 0; j < sv.size(); ++j )
      {
      u64 r1 = 0, r2 = 0; s->fm_seq_conv(t, sv[i], sv[j], &r1, &r2); ++n;
      u64 e1 = s->fm_to_fp(TF_STATIC_CAST, t, sv[i]), e2 = s->fm_to_fp(TF_STATIC_CAST, t, sv[j]);      // single conversions are judged above
      if( r1 != e1 || r2 != e2 ) { i64 a = sv[i], b = sv[j]; lv.hit(c_seq, (static_cast<u64>(ci) << 56) | (static_cast<u64>(t) << 48) | (i * 64 + j), [=]{ return ex1(s, "static_cast<T>(x); x = b; static_cast<T>(x)", t == T_F32 ? "float" : "double", {{"a",to_s(a)},{"b",to_s(b)}}, hex(e1) + ", " + hex(e2), hex(r1) + ", " + hex(r2), "seq", {to_s(t), to_s(a), to_s(b)}); }); }
      }
    rec.add_states(n, 3 * n, 2 * n);
    }
  }
  rec.note("alphabet", "float->fixed: ALL 2^32 bit patterns on " + std::to_string(full32_cfgs) + " configuration(s) + " + std::to_string(flt.size()) + " structured patterns on every configuration and entry point; double->fixed: "
           + std::to_string(dbl.size()) + " patterns (all 2048 exponents x mantissa top/bottom bit patterns, exact ties k/2^17 and +-2 ulp neighbours, +-4096 ulp windows at the range boundary); fixed->fp: "
           + std::to_string(fxs.size()) + " values (S, halfway points of the float/double formats +-2) u every raw in [-" + to_s(D) + "," + to_s(D) + "]");
  rec.count("configs_with_complete_float_domain", full32_cfgs);
  { double v = 0.5 / 65536.0; u64 b; std::memcpy(&b, &v, 8);
    rec.sample("fixed_t{double 2^-17} (exact tie) -> raw " + to_s(shims[0]->fm_from_fp(FF_CTOR, T_F64, b)) + "; fixed_t{float NaN} -> " + to_s(shims[0]->fm_from_fp(FF_CTOR, T_F32, 0x7fc00000u))); }
  rec.sample("float(raw 2^60+2^36+1) bits " + hex(shims[0]->fm_to_fp(TF_STATIC_CAST, T_F32, (1ll<<60) + (1ll<<36) + 1)));
  }
void replay05(Options const& o, Shim* s, Recorder& rec)
  {
  C05 c(rec); DirectViol d{rec};
  if( o.rcase == "from" ) { int how = static_cast<int>(parse_i64(o.rin.at(0))), t = static_cast<int>(parse_i64(o.rin.at(1))); u64 b = parse_u64(o.rin.at(2));
    c.from_fp(s, how, t, b, s->fm_from_fp(how, t, b), 0, d); i64 out; s->fm_from_fp_batch(how, t, &b, 1, &out); c.from_fp(s, how, t, b, out, 0, d); }
  else if( o.rcase == "to" ) { int how = static_cast<int>(parse_i64(o.rin.at(0))), t = static_cast<int>(parse_i64(o.rin.at(1))); i64 x = parse_i64(o.rin.at(2));
    c.to_fp(s, how, t, x, s->fm_to_fp(how, t, x), 0, d); u64 out; s->fm_to_fp_batch(how, t, &x, 1, &out); c.to_fp(s, how, t, x, out, 0, d); }
  else if( o.rcase == "rt" ) c.round_trip(s, parse_i64(o.rin.at(0)), 0, d);
  else if( o.rcase == "seq" ) { int t = static_cast<int>(parse_i64(o.rin.at(0))); i64 a = parse_i64(o.rin.at(1)), b = parse_i64(o.rin.at(2)); u64 r1 = 0, r2 = 0; s->fm_seq_conv(t, a, b, &r1, &r2);
    u64 e1 = s->fm_to_fp(TF_STATIC_CAST, t, a), e2 = s->fm_to_fp(TF_STATIC_CAST, t, b);
    if( r1 != e1 || r2 != e2 ) rec.viol(rec.cls("C05.fixed_to_fp.second_conversion_of_modified_object_wrong"), 0, [&]{ return ex1(s, "two conversions in one function", "", {{"a",to_s(a)},{"b",to_s(b)}}, hex(e1) + ", " + hex(e2), hex(r1) + ", " + hex(r2), o.rcase, o.rin); }); }
  rec.add_states(1,1,1);
  }
bool judge04(Shim* s, Recorder& rec, std::string const& kind, std::vector<u64> const& a, u64 value, u64 idx)
  {
  C04 c(rec); DirectViol d{rec};
  if( kind == "from_int" && a.size() == 3 ) { c.from_int(s, static_cast<int>(a[0]), static_cast<int>(a[1]), a[2], static_cast<i64>(value), idx, d); return true; }
  if( kind == "to_int" && a.size() == 3 ) { i64 x = static_cast<i64>(a[2]); if( fx_finite(x) ) c.to_int(s, static_cast<int>(a[0]), static_cast<int>(a[1]), x, value, idx, d); return true; }
  if( kind == "mixed" && a.size() == 5 && is_int_type(static_cast<int>(a[1])) )
    return c.promo_value(s, static_cast<int>(a[0]), static_cast<int>(a[1]), static_cast<int>(a[2]), static_cast<i64>(a[3]), a[4], static_cast<i64>(value), idx, d);
  return false;
  }
bool judge05(Shim* s, Recorder& rec, std::string const& kind, std::vector<u64> const& a, u64 value, u64 idx)
  {
  C05 c(rec); DirectViol d{rec};
  if( kind == "from_fp" && a.size() == 3 ) { c.from_fp(s, static_cast<int>(a[0]), static_cast<int>(a[1]), a[2], static_cast<i64>(value), idx, d); return true; }
  if( kind == "to_fp" && a.size() == 3 ) { c.to_fp(s, static_cast<int>(a[0]), static_cast<int>(a[1]), static_cast<i64>(a[2]), a[1] == T_F32 ? (value & 0xffffffffull) : value, idx, d); return true; }
  return false;
  }
}
REGISTER_PROPERTY(C04, explore04, replay04)
REGISTER_JUDGE(C04, judge04)
REGISTER_JUDGE(C05, judge05)
REGISTER_PROPERTY(C05, explore05, replay05)
