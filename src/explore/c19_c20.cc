// C19 lookup tables and table-driven approximations, C20 degree helpers.
#include "common.h"
#include "types.h"
#include "ref.h"

namespace {
struct Probe
  {
  std::string name; void* h {};
  i64 (*fm_angle_index)(int, int32_t) {};
  void (*fm_angle_index_range)(int, int32_t, size_t, i64*) {};
  };
Probe* load_probe(std::string const& dir, std::string const& name)
  {
  Probe* p = new Probe; p->name = name;
  std::string path = dir + "/" + name + ".so";
  p->h = dlopen(path.c_str(), RTLD_NOW | RTLD_LOCAL);
  if( !p->h ) { std::fprintf(stderr, "INTERNAL: dlopen %s: %s\n", path.c_str(), dlerror()); std::exit(2); }
  p->fm_angle_index = reinterpret_cast<i64(*)(int,int32_t)>(dlsym(p->h, "fm_angle_index"));
  p->fm_angle_index_range = reinterpret_cast<void(*)(int,int32_t,size_t,i64*)>(dlsym(p->h, "fm_angle_index_range"));
  if( !p->fm_angle_index || !p->fm_angle_index_range ) { std::fprintf(stderr, "INTERNAL: probe symbols missing\n"); std::exit(2); }
  return p;
  }
inline int residue360(int32_t d) { int r = static_cast<int>(static_cast<i64>(d) % 360); if( r < 0 ) r += 360; return r; }

//====================================================================== C19
struct C19
  {
  Recorder& rec; int c_entry, c_index, c_angle, c_sqrt, c_sqrt_special, c_atan_index;
  Interval deg[2][360];        // acceptance interval of sin/cos of r degrees (2 ulp)
  std::atomic<u64> quad_fallbacks {0};
  explicit C19(Recorder& r) : rec(r), c_entry(r.cls("C19.table_entry_not_faithful")), c_index(r.cls("C19.angle_table_index_out_of_bounds")), c_angle(r.cls("C19.angle_aprox_outside_2ulp")),
     c_sqrt(r.cls("C19.sqrt_aprox_relative_error_above_2pc")), c_sqrt_special(r.cls("C19.sqrt_aprox_zero_or_negative_wrong")), c_atan_index(r.cls("C19.atan_index_aprox_error_above_1.25"))
    {
    for( int d = 0; d < 360; ++d ) { q128 a = static_cast<q128>(d) * qpi() / 180; deg[0][d] = accept_interval(sinq(a), 2 / 65536.0Q); deg[1][d] = accept_interval(cosq(a), 2 / 65536.0Q); }
    }
  static Interval entry_interval(int which, unsigned i)
    {
    if( which == TB_SIN_ANGLE ) return accept_interval(sinq(static_cast<q128>(i) * qpi() / 180), 2 / 65536.0Q);
    if( which == TB_COS_ANGLE ) return accept_interval(cosq(static_cast<q128>(i) * qpi() / 180), 2 / 65536.0Q);
    if( which == TB_TAN ) { q128 t = tanq(static_cast<q128>(i) * qpi() / 256); return accept_interval(t, 2 / 65536.0Q * (1 + t * t)); }
    q128 v = sqrtq(static_cast<q128>(i) / 256 + 31 / 262144.0Q);      // square_root_tab holds 65536*sqrt(..) as a plain integer
    return accept_interval(v, 1 / 65536.0Q);
    }
  template<typename V> void angle_value(Shim* s, int cosine, int32_t d, i64 got, u64 order, V& lv)
    {
    Interval iv = deg[cosine][residue360(d)];
    if( got < iv.lo || got > iv.hi ) lv.hit(c_angle, order, [=]{ return ex1(s, cosine ? "cos_angle_aprox" : "sin_angle_aprox", "", {{"d",to_s(d)}}, "raw in [" + to_s(iv.lo) + "," + to_s(iv.hi) + "]", to_s(got), "angle", {to_s(cosine), to_s(d)}); });
    }
  template<typename V> void sqrt_aprox(Shim* s, i64 x, i64 got, u64 order, V& lv)
    {
    auto mk = [=](std::string e) { return ex1(s, "sqrt_aprox", "", {{"x",to_s(x)}}, e, to_s(got), "sqrt", {to_s(x)}); };
    if( x < 0 ) { if( !fx_isnan(got) ) lv.hit(c_sqrt_special, order, [=]{ return mk("NaN"); }); return; }
    if( x == 0 ) { if( got != 0 ) lv.hit(c_sqrt_special, order, [=]{ return mk("0"); }); return; }
    if( got < 0 || got > (1ll << 30) ) { lv.hit(c_sqrt, order, [=]{ return mk("within 2% of sqrt"); }); return; }
    i128 X = static_cast<i128>(x) << 16, G = static_cast<i128>(got) * 50; G *= G;
    if( G < 49 * 49 * X || G > 51 * 51 * X ) lv.hit(c_sqrt, order, [=]{ return mk("within 2% of " + to_s(static_cast<i64>(std::sqrt(static_cast<long double>(x) * 65536.0L)))); });
    }
  template<typename V> void atan_index(Shim* s, i64 x, i64 got, u64 order, V& lv)
    {
    double ref = std::atan(static_cast<double>(x) / 65536.0) * 128.0 / 3.14159265358979323846;
    double e = std::fabs(static_cast<double>(got) / 65536.0 - ref);
    bool ok;
    if( e <= 1.25 - 1e-9 ) ok = true; else if( e > 1.25 + 1e-9 ) ok = false;
    else { ++quad_fallbacks; ok = fabsq(Q(got) - atanq(Q(x)) * 128 / qpi()) <= 1.25Q; }
    if( !ok ) lv.hit(c_atan_index, order, [=]{ return ex1(s, "atan_index_aprox", "", {{"x",to_s(x)}}, "within 1.25 of " + q_s(atanq(Q(x)) * 128 / qpi()), q_s(Q(got)) + " (raw " + to_s(got) + ")", "atani", {to_s(x)}); });
    }
  };

void explore19(Options const& o, std::vector<Shim*> const& shims, std::vector<Shim*> const&, Recorder& rec)
  {
  bool th = o.tier == "thorough";
  C19 c(rec);
  std::vector<Probe*> probes; for( auto& n : o.probes ) probes.push_back(load_probe(o.shim_dir, n));
  // (b1) index of every one of the 2^32 angles, observed without reading any table
  std::vector<uint8_t> badblk(1 << 16, 0);      // 65536-angle blocks containing an out-of-bounds index
  for( size_t pi = 0; pi < probes.size(); ++pi )
    {
    Probe* p = probes[pi];
    for( int cosine = 0; cosine < 2; ++cosine )
      {
      parallel_blocks(1 << 16, o.threads, [&](size_t blk, int) {
        LocalViol lv(rec);
        std::vector<i64> out(1 << 16);
        int32_t st = static_cast<int32_t>(static_cast<uint32_t>(blk << 16));
        p->fm_angle_index_range(cosine, st, out.size(), out.data());
        for( size_t i = 0; i < out.size(); ++i )
          {
          int32_t d = static_cast<int32_t>(static_cast<uint32_t>(st) + static_cast<uint32_t>(i));
          i64 idx = out[i];
          bool ok = idx >= 0 && idx <= 360 && (idx % 360) == residue360(d);
          if( !ok )
            {
            badblk[blk] = 1;
            lv.hit(c.c_index, (static_cast<u64>(pi) << 56) | (static_cast<u64>(cosine) << 52) | static_cast<u64>(static_cast<uint32_t>(d) ^ 0x80000000u), [=]{
              Example e; e.entry = cosine ? "cos_angle_aprox" : "sin_angle_aprox"; e.cfg = p->name; e.shape = "table index observed through the probe";
              e.inputs = {{"d",to_s(d)}}; e.expected = "index " + to_s(residue360(d)) + " (or 360 for a multiple of 360) into the 361-entry table"; e.got = "index " + to_s(idx);
              e.rcase = "index"; e.rin = { to_s(cosine), to_s(d) }; return e; });
            }
          }
        });
      rec.add_states(1ull << 32, 1ull << 32, 1ull << 32);
      }
    }
  rec.count("angles_with_index_observed_per_function", probes.empty() ? 0 : (1ull << 32));
  std::vector<i64> Satan = filter_abs_below(th ? S_set(10,6) : S_set(8,4), 1ll << 47);
  i64 sq_hi = th ? (1ll << 37) : (1ll << 26), sq_hi_small = th ? (1ll << 28) : (1ll << 22);
  i64 at_d = th ? (1ll << 26) : (1ll << 22);
  rec.note("alphabet", "all 361+361+256+256 table entries through the exported accessors; table index of ALL 2^32 angles (both functions) observed through an index probe built from the working-tree header; values of sin/cos_angle_aprox for all 2^32 angles on "
           + std::string(th ? "every" : "two") + " configuration(s) and [-2^20,2^20] u S-shaped angles elsewhere; sqrt_aprox on every raw x in [1, 2^" + std::to_string(th ? 37 : 26) + ") (first gcc and clang configuration; [1,2^" + std::to_string(th ? 28 : 22)
           + ") elsewhere), 0 and negatives; atan_index_aprox on every raw x in [-2^" + std::to_string(th ? 26 : 22) + ", 2^" + std::to_string(th ? 26 : 22) + "], +-64 around every tangent-table break point and midpoint, and S (|S|=" + std::to_string(Satan.size()) + ")");
  for( size_t ci = 0; ci < shims.size(); ++ci )
    {
    Shim* s = shims[ci];
    u64 ob = static_cast<u64>(ci) << 56;
    // (a0) values observed during static initialisation (before fixed_math.cc's own initialisers ran) equal the values now
    {
    int c_early = rec.cls("C19.value_during_static_initialisation_differs");
    for( int i = 0; i < s->fm_early_count(); ++i )
      { i64 e = s->fm_early(i, 0), n = s->fm_early(i, 1);
        if( e != n ) rec.viol(c_early, ob | static_cast<u64>(i), [&]{ return ex1(s, "compiled table function called from a static initialiser of a translation unit linked before fixed_math.cc", "probe #" + std::to_string(i), {{"probe",to_s(i)}}, to_s(n) + " (value when called later)", to_s(e), "early", {to_s(i)}); }); }
    rec.add_states(static_cast<u64>(s->fm_early_count()), 2 * static_cast<u64>(s->fm_early_count()), static_cast<u64>(s->fm_early_count()));
    // the angle carried by each integral type (values that are representable in int32_t, so that the meaning of d is not in question)
    {
    int c_t = rec.cls("C19.angle_aprox_with_typed_argument_wrong");
    LocalViol lv(rec); u64 n = 0;
    for( int t : INT_TYPES ) for( int cosine = 0; cosine < 2; ++cosine )
      {
      std::vector<i64> ds;
      for( i64 d = -1100; d <= 1100; ++d ) ds.push_back(d);
      for( i64 d : { 32767ll, -32768ll, 65535ll, 65446ll, 2147483647ll, -2147483648ll, 1ll << 20, -(1ll << 20) } ) ds.push_back(d);
      for( i64 d : ds )
        {
        if( static_cast<i128>(d) < t_min(t) || static_cast<i128>(d) > t_max(t) ) continue;
        i64 g = 0; int sg = guarded([&]{ g = s->fm_angle_aprox_typed(cosine, t, static_cast<u64>(d) & t_mask(t)); }); ++n;
        Interval iv = c.deg[cosine][residue360(static_cast<int32_t>(d))];
        if( sg || g < iv.lo || g > iv.hi ) lv.hit(c_t, ob | (0xdull << 52) | (static_cast<u64>(t) << 40) | (static_cast<u64>(cosine) << 36) | static_cast<u64>(d + (1ll << 31)), [=]{ return ex1(s, cosine ? "cos_angle_aprox" : "sin_angle_aprox", std::string("argument of type ") + TN[t], {{"d",to_s(d)}},
             "raw in [" + to_s(iv.lo) + "," + to_s(iv.hi) + "]", sg ? "killed by signal " + std::to_string(sg) : to_s(g), "anglet", {to_s(cosine), to_s(t), to_s(d)}); });
        }
      }
    rec.add_states(n, n, n); rec.count("typed_angle_states", n);
    }
    // the angle functions called with LITERAL angles (the optimiser knows the argument: __builtin_constant_p fast paths, folding)
    {
    int c_k = rec.cls("C19.angle_aprox_with_literal_argument_wrong");
    LocalViol lv(rec);
    for( int cosine = 0; cosine < 2; ++cosine ) for( int i = 0; i < s->fm_angle_constarg_count(); ++i )
      {
      int32_t d = s->fm_angle_constarg_value(i); i64 g = 0;
      int sg = guarded([&]{ g = s->fm_angle_constarg(cosine, i); });
      Interval iv = c.deg[cosine][residue360(d)];
      if( sg || g < iv.lo || g > iv.hi ) lv.hit(c_k, ob | (0xeull << 52) | static_cast<u64>(cosine * 64 + i), [=]{ return ex1(s, cosine ? "cos_angle_aprox" : "sin_angle_aprox", "argument is a literal", {{"d",to_s(d)}},
           "raw in [" + to_s(iv.lo) + "," + to_s(iv.hi) + "]", sg ? "killed by signal " + std::to_string(sg) : to_s(g), "anglek", {to_s(cosine), to_s(i)}); });
      }
    rec.add_states(2 * static_cast<u64>(s->fm_angle_constarg_count()), 2 * static_cast<u64>(s->fm_angle_constarg_count()), 2 * static_cast<u64>(s->fm_angle_constarg_count()));
    }
    }
    // (a) table entries
    {
    LocalViol lv(rec);
    const unsigned sizes[4] = { 361, 361, 256, 256 }; const char* names[4] = { "sin_angle_tab", "cos_angle_tab", "tan_tab", "square_root_tab" };
    for( int w = 0; w < 4; ++w ) for( unsigned i = 0; i < sizes[w]; ++i )
      {
      if( w == TB_TAN && i == 128 ) continue;
      Interval iv = C19::entry_interval(w, i); i64 g = s->fm_table(w, i);
      if( g < iv.lo || g > iv.hi ) lv.hit(c.c_entry, ob | (static_cast<u64>(w) << 16) | i, [=]{ return ex1(s, names[w], "", {{"index",to_s(i)}}, "in [" + to_s(iv.lo) + "," + to_s(iv.hi) + "]", to_s(g), "entry", {to_s(w), to_s(i)}); });
      }
    rec.add_states(1233, 1233, 1233);
    }
    // (b2) values
    bool full = th || ci == 1 || ci == 6 % shims.size();
    for( int cosine = 0; cosine < 2; ++cosine )
      {
      u64 ob2 = ob | (1ull << 52) | (static_cast<u64>(cosine) << 48);
      auto do_block = [&](int32_t st, size_t n, LocalViol& lv, bool safe) {
        std::vector<i64> out(n), idx;
        std::vector<uint8_t> inb(n, 1);
        if( safe ) s->fm_angle_aprox_range(cosine, st, n, out.data());
        else
          { // this block contains angles whose index is out of bounds: evaluate only the in-bounds ones
          idx.resize(n);
          for( Probe* p : probes ) { p->fm_angle_index_range(cosine, st, n, idx.data()); for( size_t i = 0; i < n; ++i ) if( idx[i] < 0 || idx[i] > 360 ) inb[i] = 0; }
          }
        for( size_t i = 0; i < n; ++i )
          {
          int32_t d = static_cast<int32_t>(static_cast<uint32_t>(st) + static_cast<uint32_t>(i));
          i64 g;
          if( safe ) g = out[i];
          else
            {
            if( !inb[i] ) continue;
            g = s->fm_angle_aprox(cosine, d);
            }
          c.angle_value(s, cosine, d, g, ob2 | static_cast<u64>(static_cast<uint32_t>(d) ^ 0x80000000u), lv);
          }
        };
      if( probes.empty() ) { rec.cap("no index probe available: angle values not evaluated"); continue; }
      if( full )
        {
        parallel_blocks(1 << 16, o.threads, [&](size_t blk, int) { LocalViol lv(rec); do_block(static_cast<int32_t>(static_cast<uint32_t>(blk << 16)), 1 << 16, lv, !badblk[blk]); });
        rec.add_states(1ull << 32, 1ull << 32, 1ull << 32);
        }
      else
        {
        parallel_blocks(32, o.threads, [&](size_t k, int) { LocalViol lv(rec); int32_t st = static_cast<int32_t>(-(1 << 20) + static_cast<int32_t>(k << 16)); size_t blk = static_cast<uint32_t>(st) >> 16; do_block(st, 1 << 16, lv, !badblk[blk]); });
        LocalViol lv(rec);
        for( i64 x : S_set(6,4,true,true) ) { int32_t d = static_cast<int32_t>(static_cast<uint32_t>(static_cast<u64>(x))); do_block(d, 1, lv, false); }
        rec.add_states(1ull << 21, 1ull << 21, 1ull << 21);
        }
      }
    // (b3) two-call histories: the value for B must not depend on the angle A of the previous call (hidden state, e.g. a memo of the last reduction)
    if( !probes.empty() )
      {
      std::vector<int32_t> H;
      for( i64 x : S_set(4,2,true,true) ) H.push_back(static_cast<int32_t>(static_cast<uint32_t>(static_cast<u64>(x))));
      for( int d = -400; d <= 800; d += 7 ) H.push_back(d);
      for( int32_t base : { 65536, -65536, 1 << 24, -(1 << 24) } ) for( int d = -370; d <= 370; d += 37 ) H.push_back(base + d);
      std::sort(H.begin(), H.end()); H.erase(std::unique(H.begin(), H.end()), H.end());
      // only angles whose index is in bounds are called
      std::vector<int32_t> Hs; for( int32_t d : H ) { bool inb = true; for( Probe* p : probes ) for( int cz = 0; cz < 2; ++cz ) { i64 idx = p->fm_angle_index(cz, d); if( idx < 0 || idx > 360 ) inb = false; } if( inb ) Hs.push_back(d); }
      int c_hist = rec.cls("C19.angle_aprox_depends_on_previous_call");
      for( int cosine = 0; cosine < 2; ++cosine )
        {   // sequential on purpose: the history is per thread
        LocalViol lv(rec);
        for( size_t ia = 0; ia < Hs.size(); ++ia ) for( size_t ib = 0; ib < Hs.size(); ++ib )
          {
          s->fm_angle_aprox(cosine, Hs[ia]);
          i64 g = s->fm_angle_aprox(cosine, Hs[ib]);
          Interval iv = c.deg[cosine][residue360(Hs[ib])];
          if( g < iv.lo || g > iv.hi ) { int32_t A = Hs[ia], B = Hs[ib]; lv.hit(c_hist, ob | (9ull << 52) | (static_cast<u64>(cosine) << 48) | (ia * Hs.size() + ib), [=]{ return ex1(s, cosine ? "cos_angle_aprox(A); cos_angle_aprox(B)" : "sin_angle_aprox(A); sin_angle_aprox(B)", "two consecutive calls", {{"A",to_s(A)},{"B",to_s(B)}}, "second result in [" + to_s(iv.lo) + "," + to_s(iv.hi) + "]", to_s(g), "hist", {to_s(cosine), to_s(A), to_s(B)}); }); }
          }
        u64 n = static_cast<u64>(Hs.size()) * Hs.size(); rec.add_states(n, 2 * n, n);
        }
      rec.count("two_call_history_angles", Hs.size());
      }
    // (c) sqrt_aprox
    {
    bool big = ci == 1 || ci == 6 % shims.size();
    i64 hi = big ? sq_hi : sq_hi_small;
    sweep_un_range(s, U_SQRT_APROX, 0, hi - 1, o.threads, rec, ob | (2ull << 52), [&](i64 x, i64 got, u64 ord, LocalViol& lv) { c.sqrt_aprox(s, x, got, ord, lv); }, 1 << 16);
    sweep_un_range(s, U_SQRT_APROX, -(1 << 16), -1, o.threads, rec, ob | (3ull << 52), [&](i64 x, i64 got, u64 ord, LocalViol& lv) { c.sqrt_aprox(s, x, got, ord, lv); });
    std::vector<i64> sx; for( i64 x : merge_sets(merge_sets(S_set(8,4,true), S2_set(th ? 3 : 2)), D_set(th ? 2 : 1)) ) if( x < (1ll << 37) ) sx.push_back(x);      // negatives of every shape: NaN below 0
    sweep_un_set(s, U_SQRT_APROX, sx, o.threads, rec, ob | (4ull << 52), [&](i64 x, i64 got, u64 ord, LocalViol& lv) { c.sqrt_aprox(s, x, got, ord, lv); });
    }
    // (d) atan_index_aprox
    {
    sweep_un_range(s, U_ATAN_INDEX_APROX, -at_d, at_d, o.threads, rec, ob | (5ull << 52), [&](i64 x, i64 got, u64 ord, LocalViol& lv) { c.atan_index(s, x, got, ord, lv); });
    std::vector<i64> bp = Satan;
    for( unsigned i = 0; i < 256; ++i )
      {
      i64 t = s->fm_table(TB_TAN, i), t2 = s->fm_table(TB_TAN, (i + 1) & 255);
      for( i64 d = -64; d <= 64; ++d ) { bp.push_back(t + d); bp.push_back((t + t2) / 2 + d); }
      }
    std::sort(bp.begin(), bp.end()); bp.erase(std::unique(bp.begin(), bp.end()), bp.end());
    bp = filter_abs_below(bp, 1ll << 47);
    sweep_un_set(s, U_ATAN_INDEX_APROX, bp, o.threads, rec, ob | (6ull << 52), [&](i64 x, i64 got, u64 ord, LocalViol& lv) { c.atan_index(s, x, got, ord, lv); });
    }
    }
  rec.count("oracle.decided_in_quad_precision", c.quad_fallbacks.load());
  rec.sample("sin_angle_tab(30) = " + to_s(shims[0]->fm_table(TB_SIN_ANGLE, 30)) + ", tan_tab(64) = " + to_s(shims[0]->fm_table(TB_TAN, 64)) + ", square_root_tab(255) = " + to_s(shims[0]->fm_table(TB_SQRT, 255)));
  if( !probes.empty() ) rec.sample("index computed for sin_angle_aprox(-30) = " + to_s(probes[0]->fm_angle_index(0, -30)) + ", for 725 = " + to_s(probes[0]->fm_angle_index(0, 725)));
  rec.sample("sqrt_aprox(raw 131072 = 2.0) = " + to_s(shims[0]->fm_un(U_SQRT_APROX, 131072)) + ", atan_index_aprox(raw 65536 = 1.0) = " + to_s(shims[0]->fm_un(U_ATAN_INDEX_APROX, 65536)) + " (32.0 expected = raw 2097152)");
  }
void replay19(Options const& o, Shim* s, Recorder& rec)
  {
  C19 c(rec); DirectViol d{rec};
  rec.add_states(1,1,1);
  if( o.rcase == "index" )
    {
    Probe* p = load_probe(o.shim_dir, o.rcfg);
    int cosine = static_cast<int>(parse_i64(o.rin.at(0))); int32_t a = static_cast<int32_t>(parse_i64(o.rin.at(1)));
    i64 idx = p->fm_angle_index(cosine, a);
    if( !(idx >= 0 && idx <= 360 && (idx % 360) == residue360(a)) )
      rec.viol(c.c_index, 0, [&]{ Example e; e.entry = cosine ? "cos_angle_aprox" : "sin_angle_aprox"; e.cfg = o.rcfg; e.inputs = {{"d",to_s(a)}}; e.expected = "index " + to_s(residue360(a)); e.got = "index " + to_s(idx); e.rcase = o.rcase; e.rin = o.rin; return e; });
    return;
    }
  if( o.rcase == "anglet" )
    { int cosine = static_cast<int>(parse_i64(o.rin.at(0))), t = static_cast<int>(parse_i64(o.rin.at(1))); i64 dd = parse_i64(o.rin.at(2)); i64 g = 0;
      int sg = guarded([&]{ g = s->fm_angle_aprox_typed(cosine, t, static_cast<u64>(dd) & t_mask(t)); }); Interval iv = c.deg[cosine][residue360(static_cast<int32_t>(dd))];
      if( sg || g < iv.lo || g > iv.hi ) rec.viol(rec.cls("C19.angle_aprox_with_typed_argument_wrong"), 0, [&]{ return ex1(s, cosine ? "cos_angle_aprox" : "sin_angle_aprox", TN[t], {{"d",to_s(dd)}}, "[" + to_s(iv.lo) + "," + to_s(iv.hi) + "]", sg ? "signal" : to_s(g), o.rcase, o.rin); });
      rec.add_states(1,1,1); return; }
  if( o.rcase == "anglek" )
    { int cosine = static_cast<int>(parse_i64(o.rin.at(0))), i = static_cast<int>(parse_i64(o.rin.at(1))); int32_t dd = s->fm_angle_constarg_value(i); i64 g = 0;
      int sg = guarded([&]{ g = s->fm_angle_constarg(cosine, i); }); Interval iv = c.deg[cosine][residue360(dd)];
      if( sg || g < iv.lo || g > iv.hi ) rec.viol(rec.cls("C19.angle_aprox_with_literal_argument_wrong"), 0, [&]{ return ex1(s, cosine ? "cos_angle_aprox" : "sin_angle_aprox", "argument is a literal", {{"d",to_s(dd)}}, "[" + to_s(iv.lo) + "," + to_s(iv.hi) + "]", sg ? "signal" : to_s(g), o.rcase, o.rin); });
      rec.add_states(1,1,1); return; }
  if( o.rcase == "early" ) { int i = static_cast<int>(parse_i64(o.rin.at(0))); i64 e = s->fm_early(i, 0), n = s->fm_early(i, 1);
    if( e != n ) { rec.viol(rec.cls("C19.value_during_static_initialisation_differs"), 0, [&]{ return ex1(s, "static-initialisation probe", "", {{"probe",to_s(i)}}, to_s(n), to_s(e), o.rcase, o.rin); }); }
    return; }
  if( o.rcase == "entry" ) { int w = static_cast<int>(parse_i64(o.rin.at(0))); unsigned i = static_cast<unsigned>(parse_i64(o.rin.at(1))); Interval iv = C19::entry_interval(w, i); i64 g = s->fm_table(w, i);
    if( g < iv.lo || g > iv.hi ) rec.viol(c.c_entry, 0, [&]{ return ex1(s, "table entry", "", {{"table",to_s(w)},{"index",to_s(i)}}, "in [" + to_s(iv.lo) + "," + to_s(iv.hi) + "]", to_s(g), o.rcase, o.rin); }); }
  else if( o.rcase == "hist" ) { int cosine = static_cast<int>(parse_i64(o.rin.at(0))); int32_t A = static_cast<int32_t>(parse_i64(o.rin.at(1))), B = static_cast<int32_t>(parse_i64(o.rin.at(2)));
    s->fm_angle_aprox(cosine, A); i64 g = s->fm_angle_aprox(cosine, B); Interval iv = c.deg[cosine][residue360(B)];
    if( g < iv.lo || g > iv.hi ) rec.viol(rec.cls("C19.angle_aprox_depends_on_previous_call"), 0, [&]{ return ex1(s, "two consecutive calls", "", {{"A",to_s(A)},{"B",to_s(B)}}, "[" + to_s(iv.lo) + "," + to_s(iv.hi) + "]", to_s(g), o.rcase, o.rin); }); }
  else if( o.rcase == "angle" ) { int cosine = static_cast<int>(parse_i64(o.rin.at(0))); int32_t a = static_cast<int32_t>(parse_i64(o.rin.at(1))); c.angle_value(s, cosine, a, s->fm_angle_aprox(cosine, a), 0, d); }
  else if( o.rcase == "sqrt" ) { i64 x = parse_i64(o.rin.at(0)); c.sqrt_aprox(s, x, s->fm_un(U_SQRT_APROX, x), 0, d); }
  else if( o.rcase == "atani" ) { i64 x = parse_i64(o.rin.at(0)); c.atan_index(s, x, s->fm_un(U_ATAN_INDEX_APROX, x), 0, d); }
  }

//====================================================================== C20
struct C20
  {
  Recorder& rec; int c_rad, c_rad_nan, c_sincos, c_tan, c_types;
  Interval rad[361], sc[2][721], tn[721]; bool tan_pole[721];
  explicit C20(Recorder& r) : rec(r), c_rad(r.cls("C20.angle_to_radians.outside_2ulp")), c_rad_nan(r.cls("C20.angle_to_radians.out_of_range_not_nan")),
     c_sincos(r.cls("C20.sin_cos_angle.outside_bound")), c_tan(r.cls("C20.tan_angle.outside_bound")), c_types(r.cls("C20.argument_types_disagree"))
    {
    for( int d = 0; d <= 360; ++d ) rad[d] = accept_interval(static_cast<q128>(d) * qpi() / 180, 2 / 65536.0Q);
    for( int d = -360; d <= 360; ++d )
      {
      q128 x = static_cast<q128>(d) * qpi() / 180;
      int m = ((d % 180) + 180) % 180;                         // distance to the nearest multiple of 180 degrees, exactly
      int rs_deg = std::min(m, 180 - m);
      int mc = (((d - 90) % 180) + 180) % 180; int rc_deg = std::min(mc, 180 - mc);
      q128 rs = static_cast<q128>(rs_deg) * qpi() / 180, rc = static_cast<q128>(rc_deg) * qpi() / 180;
      sc[0][d + 360] = accept_interval(sinq(x), 7 / 65536.0Q + powq(rs, 9) / 362880);
      sc[1][d + 360] = accept_interval(cosq(x), 7 / 65536.0Q + powq(rc, 9) / 362880);
      tan_pole[d + 360] = mc == 0;
      if( !tan_pole[d + 360] ) { q128 t = tanq(x); tn[d + 360] = accept_interval(t, 5 / 65536.0Q * (1 + t * t)); } else tn[d + 360] = Interval{0,0};
      }
    }
  template<typename V> void radians(Shim* s, int t, u64 bits, i64 got, u64 order, V& lv)
    {
    i128 d = int_value(t, bits);
    if( d >= 0 && d <= 360 )
      { Interval iv = rad[static_cast<int>(d)];
        if( got < iv.lo || got > iv.hi ) lv.hit(c_rad, order, [=]{ return ex1(s, "angle_to_radians", TN[t], {{"d",to_s128(d)}}, "raw in [" + to_s(iv.lo) + "," + to_s(iv.hi) + "]", to_s(got), "rad", {to_s(t), to_su(bits)}); }); }
    else if( !fx_isnan(got) ) lv.hit(c_rad_nan, order, [=]{ return ex1(s, "angle_to_radians", TN[t], {{"d",to_s128(d)}}, "NaN", to_s(got), "rad", {to_s(t), to_su(bits)}); });
    }
  // type code 8 = float, 10 = fixed_t
  static bool representable(int t, int d) { if( is_int_type(t) ) return static_cast<i128>(d) >= t_min(t) && static_cast<i128>(d) <= t_max(t); return true; }
  static u64 carry(int t, int d)
    {
    if( is_int_type(t) ) return static_cast<u64>(static_cast<i64>(d)) & t_mask(t);
    if( t == T_F32 ) { float f = static_cast<float>(d); uint32_t b; std::memcpy(&b, &f, 4); return b; }
    return static_cast<u64>(static_cast<i64>(d) * 65536);
    }
  template<typename V> void xangle(Shim* s, int fn, int t, int d, i64 got, i64 ref_i32, u64 order, V& lv)
    {
    auto mk = [=](std::string e) { return ex1(s, fn == A_SIN ? "sin_angle" : fn == A_COS ? "cos_angle" : "tan_angle", TN[t], {{"d",to_s(d)}}, e, to_s(got), "xangle", {to_s(fn), to_s(t), to_s(d)}); };
    if( fn == A_TAN )
      { if( !tan_pole[d + 360] ) { Interval iv = tn[d + 360]; if( fx_isnan(got) || got < iv.lo || got > iv.hi ) lv.hit(c_tan, order, [=]{ return mk("raw in [" + to_s(iv.lo) + "," + to_s(iv.hi) + "] (5 ulp * (1 + tan^2))"); }); } }
    else { Interval iv = sc[fn][d + 360]; if( got < iv.lo || got > iv.hi ) lv.hit(c_sincos, order, [=]{ return mk("raw in [" + to_s(iv.lo) + "," + to_s(iv.hi) + "] (7 ulp + r^9/9!)"); }); }
    bool same = got == ref_i32 || (fx_isnan(got) && fx_isnan(ref_i32));
    if( !same ) lv.hit(c_types, order, [=]{ return mk(to_s(ref_i32) + " (result for the same d carried by int32_t)"); });
    }
  };

void explore20(Options const& o, std::vector<Shim*> const& shims, std::vector<Shim*> const&, Recorder& rec)
  {
  bool th = o.tier == "thorough";
  C20 c(rec);
  std::vector<u64> v64[2] = { int_type_values(T_I64, th ? 8 : 6, 4, th ? 4096 : 512), int_type_values(T_U64, th ? 8 : 6, 4, th ? 4096 : 512) };
  for( int k = 0; k < 2; ++k ) for( i64 d = -1024; d <= 1024; ++d ) v64[k].push_back(static_cast<u64>(d));
  // 64-bit words whose two 32-bit halves are each an angle of the function's own domain (a quotient or remainder narrowed to 32 bits)
  for( int k = 0; k < 2; ++k ) for( u64 hi : { 1ull, 2ull, 3ull, 4ull, 89ull, 90ull, 91ull, 180ull, 270ull, 360ull, 361ull, 450ull, 630ull, 720ull, 0xffffffffull, 0x80000000ull } ) for( u64 lo = 0; lo <= 460; ++lo ) v64[k].push_back((hi << 32) | lo);
  const int XT[12] = { T_I8, T_I16, T_I32, T_I64, T_U8, T_U16, T_U32, T_U64, T_LL, T_ULL, T_F32, T_FIXED };
  rec.note("alphabet", "angle_to_radians: EVERY value of the 8- and 16-bit types; every value of int32/uint32 on " + std::string(th ? "every configuration" : "two configurations and windows elsewhere") + "; " + std::to_string(v64[0].size())
           + " S-shaped/boundary values of the 64-bit types; sin/cos/tan_angle: every integer d in [-360, 360] carried by each of 12 argument types (where representable), compared with the bound and with the int32_t result");
  for( size_t ci = 0; ci < shims.size(); ++ci )
    {
    Shim* s = shims[ci];
    u64 ob = static_cast<u64>(ci) << 56;
    bool full32 = th || ci == 1 || ci == 6 % shims.size();
    // FIRST, on a fresh thread (so that any lazily filled per-thread or per-process state is still empty): a call with a
    // fractional number of degrees, then the whole-degree call of the same slot - the second result is judged as usual
    {
    std::thread fresh([&]{
      LocalViol lv(rec); u64 n = 0;
      for( int fn = 0; fn < A_COUNT; ++fn ) for( int d = -360; d <= 360; ++d )
        {
        i64 frac = (d % 3 == 0) ? 49152 : (d % 3 == 1 || d % 3 == -2) ? 16384 : 65535;
        int sg = guarded([&]{ s->fm_xangle(fn, T_FIXED, static_cast<u64>(static_cast<i64>(d) * 65536 + frac)); s->fm_xangle(fn, T_F32, C20::carry(T_F32, d) + 1); });
        (void)sg;
        for( int t : { T_I32, T_FIXED, T_F32 } )
          {
          i64 g = s->fm_xangle(fn, t, C20::carry(t, d)); ++n;
          c.xangle(s, fn, t, d, g, g, ob | (14ull << 52) | (static_cast<u64>(fn) << 40) | (static_cast<u64>(d + 360) << 8) | static_cast<u64>(t), lv);
          }
        }
      rec.add_states(n, 2 * n, n); rec.count("whole_degree_calls_after_a_fractional_call_on_a_fresh_thread", n);
      });
    fresh.join();
    }
    for( int t : INT_TYPES )
      {
      u64 ob2 = ob | (static_cast<u64>(t) << 52);
      if( TBITS[t] <= 32 )
        {
        std::vector<std::pair<u64,u64>> ranges;
        if( TBITS[t] < 32 || full32 ) ranges.push_back({0, 1ull << TBITS[t]});
        else for( u64 cc : { 0ull, 0x7fffffffull, 0x80000000ull, 0xffffffffull, 0x10000ull, 0x8000ull } ) { u64 lo = cc > (1u<<17) ? cc - (1u<<17) : 0; u64 hi = std::min<u64>(cc + (1u<<17), 1ull<<32); ranges.push_back({lo, hi - lo}); }
        for( auto rg : ranges )
          {
          const u64 B = 1 << 16; size_t nb = static_cast<size_t>((rg.second + B - 1) / B);
          parallel_blocks(nb, o.threads, [&](size_t blk, int) {
            LocalViol lv(rec);
            u64 st = rg.first + blk * B; size_t n = static_cast<size_t>(std::min<u64>(B, rg.second - blk * B));
            std::vector<i64> out(n);
            s->fm_angle_to_radians_range(t, st, n, out.data());
            for( size_t i = 0; i < n; ++i ) c.radians(s, t, st + i, out[i], ob2 | (st + i), lv);
            });
          rec.add_states(rg.second, rg.second, rg.second);
          }
        }
      else
        {
        std::vector<u64> const& vs = v64[t_signed(t) ? 0 : 1];
        LocalViol lv(rec);
        for( size_t i = 0; i < vs.size(); ++i ) c.radians(s, t, vs[i], s->fm_angle_to_radians(t, vs[i]), ob2 | i, lv);
        rec.add_states(vs.size(), vs.size(), vs.size());
        }
      }
    {
    LocalViol lv(rec); u64 n = 0;
    for( int fn = 0; fn < A_COUNT; ++fn ) for( int d = -360; d <= 360; ++d )
      {
      i64 ref = s->fm_xangle(fn, T_I32, C20::carry(T_I32, d));
      for( int ti = 0; ti < 12; ++ti )
        {
        int t = XT[ti];
        if( !C20::representable(t, d) ) continue;
        i64 g = s->fm_xangle(fn, t, C20::carry(t, d));
        c.xangle(s, fn, t, d, g, ref, ob | (15ull << 52) | (static_cast<u64>(fn) << 40) | (static_cast<u64>(d + 360) << 8) | static_cast<u64>(ti), lv);
        ++n;
        }
      }
    rec.add_states(n, n, 2 * n);
    rec.count("xangle_states", n);
    }
    // the same calls from 8 threads at once, every result judged by the oracle: functions that are pure by contract must not
    // interfere with each other (a shared memo that is neither thread-local nor atomic). Free-running: a detection here depends
    // on the interleaving, a silent run proves nothing beyond the interleavings that occurred; no alarm is possible on pure code.
    {
    std::atomic<u64> nconc{0};
    std::vector<std::thread> th8;
    for( int tid = 0; tid < 8; ++tid ) th8.emplace_back([&, tid]{
      LocalViol lv(rec); u64 n = 0;
      for( int round = 0; round < (th ? 40 : 12); ++round ) for( int fn = 0; fn < A_COUNT; ++fn ) for( int k = 0; k <= 720; ++k )
        {
        int d = ((k * 7 + tid * 91 + round * 13) % 721) - 360; int t = (k + tid) % 2 ? T_I32 : T_FIXED;
        i64 g = s->fm_xangle(fn, t, C20::carry(t, d)); ++n;
        c.xangle(s, fn, t, d, g, g, ob | (13ull << 52) | (static_cast<u64>(fn) << 40) | (static_cast<u64>(d + 360) << 8) | static_cast<u64>(t), lv);
        }
      nconc += n; });
    for( auto& t : th8 ) t.join();
    rec.add_states(nconc.load(), nconc.load(), nconc.load()); rec.count("calls_made_concurrently_from_8_threads", nconc.load());
    }
    }
  rec.sample("angle_to_radians(uint8_t 200) = " + to_s(shims[0]->fm_angle_to_radians(T_U8, 200)) + " (accepted [" + to_s(c.rad[200].lo) + "," + to_s(c.rad[200].hi) + "]); angle_to_radians(int16_t 361) = " + to_s(shims[0]->fm_angle_to_radians(T_I16, 361)));
  rec.sample("sin_angle(int8_t -30) = " + to_s(shims[0]->fm_xangle(A_SIN, T_I8, C20::carry(T_I8, -30))) + ", cos_angle(float 60) = " + to_s(shims[0]->fm_xangle(A_COS, T_F32, C20::carry(T_F32, 60))) + ", tan_angle(fixed 135) = " + to_s(shims[0]->fm_xangle(A_TAN, 10, C20::carry(10, 135))));
  }
void replay20(Options const& o, Shim* s, Recorder& rec)
  {
  C20 c(rec); DirectViol d{rec};
  if( o.rcase == "rad" ) { int t = static_cast<int>(parse_i64(o.rin.at(0))); u64 b = parse_u64(o.rin.at(1)); c.radians(s, t, b, s->fm_angle_to_radians(t, b), 0, d); i64 out; s->fm_angle_to_radians_range(t, b, 1, &out); c.radians(s, t, b, out, 0, d); }
  else { int fn = static_cast<int>(parse_i64(o.rin.at(0))), t = static_cast<int>(parse_i64(o.rin.at(1))), dg = static_cast<int>(parse_i64(o.rin.at(2)));
         c.xangle(s, fn, t, dg, s->fm_xangle(fn, t, C20::carry(t, dg)), s->fm_xangle(fn, T_I32, C20::carry(T_I32, dg)), 0, d); }
  rec.add_states(1,1,1);
  }
bool judge19(Shim* s, Recorder& rec, std::string const& kind, std::vector<u64> const& a, u64 value, u64 idx)
  {
  static C19* c = new C19(rec); DirectViol d{rec};
  i64 got = static_cast<i64>(value);
  if( kind == "angle_aprox" && a.size() == 2 ) { c->angle_value(s, static_cast<int>(a[0]), static_cast<int32_t>(static_cast<i64>(a[1])), got, idx, d); return true; }
  if( kind == "un" && a.size() == 2 && a[0] == U_SQRT_APROX ) { i64 x = static_cast<i64>(a[1]); if( x < (1ll << 37) && (fx_finite(x) || fx_isnan(x)) ) c->sqrt_aprox(s, x, got, idx, d); return true; }
  if( kind == "un" && a.size() == 2 && a[0] == U_ATAN_INDEX_APROX ) { i64 x = static_cast<i64>(a[1]); if( x > -(1ll << 47) && x < (1ll << 47) ) c->atan_index(s, x, got, idx, d); return true; }
  return false;
  }
bool judge20(Shim* s, Recorder& rec, std::string const& kind, std::vector<u64> const& a, u64 value, u64 idx)
  {
  static C20* c = new C20(rec); DirectViol d{rec};
  i64 got = static_cast<i64>(value);
  if( kind == "a2r" && a.size() == 2 ) { c->radians(s, static_cast<int>(a[0]), a[1], got, idx, d); return true; }
  int fn = -1, t = -1; bool have = false; i64 dg = 0;
  if( kind == "xangle" && a.size() == 3 )
    {
    fn = static_cast<int>(a[0]); t = static_cast<int>(a[1]);
    if( is_int_type(t) ) { i128 n = int_value(t, a[2]); if( n >= -360 && n <= 360 ) { have = true; dg = static_cast<i64>(n); } }
    else if( t == T_F32 ) { uint32_t b = static_cast<uint32_t>(a[2]); float f; std::memcpy(&f, &b, 4); if( f >= -360.0f && f <= 360.0f && f == std::floor(f) ) { have = true; dg = static_cast<i64>(f); } }
    else return false;
    }
  else if( kind == "un" && a.size() == 2 && (a[0] == U_SIN_ANGLE_FX || a[0] == U_COS_ANGLE_FX || a[0] == U_TAN_ANGLE_FX) )
    {
    fn = a[0] == U_SIN_ANGLE_FX ? A_SIN : a[0] == U_COS_ANGLE_FX ? A_COS : A_TAN; t = T_FIXED;
    i64 x = static_cast<i64>(a[1]); if( x % 65536 == 0 && x >= -360 * 65536 && x <= 360 * 65536 ) { have = true; dg = x / 65536; }
    }
  else return false;
  if( have ) c->xangle(s, fn, t, static_cast<int>(dg), got, got, idx, d);      // agreement between argument types relates two calls: a law line
  return true;
  }
}
REGISTER_PROPERTY(C19, explore19, replay19)
REGISTER_JUDGE(C19, judge19)
REGISTER_JUDGE(C20, judge20)
REGISTER_PROPERTY(C20, explore20, replay20)
