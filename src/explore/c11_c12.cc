// C11 atan / atan2, C12 asin / acos.
#include "common.h"
#include "ref.h"

namespace {
const i64 LIM47 = 1ll << 47;

//====================================================================== C11
struct C11
  {
  Recorder& rec; int c_acc, c_odd, c_bound, c_mono, c_a2_acc, c_a2_sign, c_a2_axis, c_a2_origin;
  std::atomic<u64> quad_fallbacks {0};
  explicit C11(Recorder& r) : rec(r), c_acc(r.cls("C11.atan.error_above_5e-5")), c_odd(r.cls("C11.atan.not_odd")), c_bound(r.cls("C11.atan.exceeds_pi/2_constant")),
     c_mono(r.cls("C11.atan.not_monotone_within_2ulp")), c_a2_acc(r.cls("C11.atan2.error_above_8e-5")), c_a2_sign(r.cls("C11.atan2.wrong_sign")),
     c_a2_axis(r.cls("C11.atan2.axis_value_wrong")), c_a2_origin(r.cls("C11.atan2.origin_not_nan")) {}
  // |got/65536 - ref| <= tol decided in double with a guard band, in quad inside the band
  bool within(i64 got, double ref_d, double tol, std::function<q128()> const& ref_q)
    {
    double e = std::fabs(static_cast<double>(got) / 65536.0 - ref_d);
    if( e <= tol - 1e-9 ) return true;
    if( e > tol + 1e-9 ) return false;
    ++quad_fallbacks;
    return fabsq(Q(got) - ref_q()) <= static_cast<q128>(tol);
    }
  template<typename V> void atan1(Shim* s, i64 x, i64 got, i64 got_neg, u64 order, V& lv)
    {
    if( !within(got, std::atan(static_cast<double>(x) / 65536.0), 5e-5, [=]{ return atanq(Q(x)); }) )
      lv.hit(c_acc, order, [=]{ return ex1(s, "atan", "", {{"x",to_s(x)}}, "within 5e-5 of " + q_s(atanq(Q(x))) + " (raw " + q_s(atanq(Q(x)) * 65536) + ")", to_s(got), "atan", {to_s(x)}); });
    if( got_neg != -got ) lv.hit(c_odd, order, [=]{ return ex1(s, "atan(-x) == -atan(x)", "", {{"x",to_s(x)}}, to_s(-got), to_s(got_neg), "atan", {to_s(x)}); });
    if( got > PHI2 || got < -PHI2 ) lv.hit(c_bound, order, [=]{ return ex1(s, "atan", "", {{"x",to_s(x)}}, "|result| <= 102944", to_s(got), "atan", {to_s(x)}); });
    }
  template<typename V> void atan2(Shim* s, i64 y, i64 x, i64 got, u64 order, V& lv)
    {
    auto mk = [=](std::string e) { return ex1(s, "atan2", "", {{"y",to_s(y)},{"x",to_s(x)}}, e, to_s(got), "atan2", {to_s(y), to_s(x)}); };
    if( x == 0 && y == 0 ) { if( !fx_isnan(got) ) lv.hit(c_a2_origin, order, [=]{ return mk("NaN"); }); return; }
    if( x == 0 ) { i64 e = y > 0 ? PHI2 : -PHI2; if( got != e ) lv.hit(c_a2_axis, order, [=]{ return mk(to_s(e)); }); return; }
    if( y == 0 ) { i64 e = x > 0 ? 0 : PHI; if( got != e ) lv.hit(c_a2_axis, order, [=]{ return mk(to_s(e)); }); return; }
    if( (y > 0 && got < 0) || (y < 0 && got > 0) ) lv.hit(c_a2_sign, order, [=]{ return mk(y > 0 ? ">= 0" : "<= 0"); });
    double ref = std::atan2(static_cast<double>(y), static_cast<double>(x));
    if( !within(got, ref, 8e-5, [=]{ return atan2q(static_cast<q128>(y), static_cast<q128>(x)); }) )
      lv.hit(c_a2_acc, order, [=]{ return mk("within 8e-5 of " + q_s(atan2q(static_cast<q128>(y), static_cast<q128>(x))) + " (raw " + q_s(atan2q(static_cast<q128>(y), static_cast<q128>(x)) * 65536) + ")"); });
    }
  };

// dense sweep of atan over [0, hi): accuracy, oddness, bound, and running-maximum monotonicity
void atan_dense(C11& c, Shim* s, i64 hi, int threads, u64 ob)
  {
  const size_t B = 1 << 15;
  size_t nb = static_cast<size_t>((hi + static_cast<i64>(B) - 1) / static_cast<i64>(B));
  std::vector<i64> bmax(nb), bmin(nb), bmax_arg(nb);
  auto run_block = [&](size_t blk, i64 prefix, i64 prefix_arg, bool pinpoint, LocalViol& lv) {
    i64 x0 = static_cast<i64>(blk * B); size_t n = static_cast<size_t>(std::min<i64>(static_cast<i64>(B), hi - x0));
    std::vector<i64> out(n), neg(n), xs(n);
    s->fm_un_range(U_ATAN, x0, n, out.data());
    for( size_t i = 0; i < n; ++i ) xs[i] = -(x0 + static_cast<i64>(i));
    s->fm_un_batch(U_ATAN, xs.data(), n, neg.data());
    i64 run = prefix, run_arg = prefix_arg, mn = INT64_MAX, mx = INT64_MIN, mx_arg = x0;
    for( size_t i = 0; i < n; ++i )
      {
      i64 x = x0 + static_cast<i64>(i);
      if( !pinpoint ) c.atan1(s, x, out[i], neg[i], ob | static_cast<u64>(x), lv);
      if( out[i] + 2 < run ) { i64 r = run, ra = run_arg, g = out[i]; lv.hit(c.c_mono, ob | static_cast<u64>(x), [=]{ return ex1(s, "atan monotone", "", {{"x",to_s(x)},{"earlier_x",to_s(ra)}}, ">= atan(earlier_x) - 2 ulp = " + to_s(r - 2), to_s(g), "mono", {to_s(x), to_s(ra)}); }); }
      if( out[i] > run ) { run = out[i]; run_arg = x; }
      mn = std::min(mn, out[i]); if( out[i] > mx ) { mx = out[i]; mx_arg = x; }
      }
    bmax[blk] = mx; bmin[blk] = mn; bmax_arg[blk] = mx_arg;
    };
  parallel_blocks(nb, threads, [&](size_t blk, int) { LocalViol lv(c.rec); run_block(blk, INT64_MIN + 8, 0, false, lv); });
  i64 prefix = INT64_MIN + 8, prefix_arg = 0;
  for( size_t blk = 0; blk < nb; ++blk )
    {
    if( bmin[blk] + 2 < prefix ) { LocalViol lv(c.rec); i64 sm = bmax[blk], sn = bmin[blk], sa = bmax_arg[blk]; run_block(blk, prefix, prefix_arg, true, lv); bmax[blk] = sm; bmin[blk] = sn; bmax_arg[blk] = sa; }
    if( bmax[blk] > prefix ) { prefix = bmax[blk]; prefix_arg = bmax_arg[blk]; }
    }
  c.rec.add_states(static_cast<u64>(hi) * 2, static_cast<u64>(hi) * 2, static_cast<u64>(hi) * 4);
  }

void explore11(Options const& o, std::vector<Shim*> const& shims, std::vector<Shim*> const&, Recorder& rec)
  {
  bool th = o.tier == "thorough";
  C11 c(rec);
  std::vector<i64> S;
  for( i64 x : merge_sets(th ? S_set(10,8) : S_set(8,8), S2_set(th ? 3 : 2)) ) if( x >= 0 && x < LIM47 ) S.push_back(x);
  std::vector<i64> P = filter_abs_below(th ? S_set(5,2) : S_set(4,2), LIM47);
  std::vector<std::pair<i64,i64>> grid;      // dense grid [-G,G]^2 scaled by 2^j
  { int G = th ? 96 : 24; for( int j = 0; j <= 38; j += (th ? 1 : 2) ) for( int gy = -G; gy <= G; ++gy ) for( int gx = -G; gx <= G; ++gx ) grid.push_back({ static_cast<i64>(gy) << j, static_cast<i64>(gx) << j }); }
  i64 dense_big = th ? (1ll << 34) : (1ll << 26), dense_small = th ? (1ll << 28) : (1ll << 22);
  rec.note("alphabet", "atan: every raw x in [0, 2^" + std::to_string(th ? 34 : 26) + ") on the first gcc and clang configuration and [0, 2^" + std::to_string(th ? 28 : 22) + ") elsewhere (negatives through exact oddness), S |S|=" + std::to_string(S.size())
           + " up to 2^47, running-maximum monotonicity over the sorted enumeration; atan2: P^2 with |P|=" + std::to_string(P.size()) + " (|.| < 2^47) and " + std::to_string(grid.size()) + " grid points [-G,G]^2 * 2^j");
  for( size_t ci = 0; ci < shims.size(); ++ci )
    {
    Shim* s = shims[ci];
    u64 ob = static_cast<u64>(ci) << 56;
    bool big = ci == 1 || ci == 6 % shims.size();
    atan_dense(c, s, big ? dense_big : dense_small, o.threads, ob);
    // S (sorted) with running maximum
    {
    LocalViol lv(rec); i64 run = INT64_MIN + 8, run_arg = 0;
    for( size_t i = 0; i < S.size(); ++i )
      {
      i64 x = S[i], g = s->fm_un(U_ATAN, x), gn = s->fm_un(U_ATAN, -x);
      c.atan1(s, x, g, gn, ob | (1ull << 52) | i, lv);
      if( g + 2 < run ) { i64 r = run, ra = run_arg; lv.hit(c.c_mono, ob | (1ull << 52) | i, [=]{ return ex1(s, "atan monotone", "", {{"x",to_s(x)},{"earlier_x",to_s(ra)}}, ">= atan(earlier_x) - 2 ulp = " + to_s(r - 2), to_s(g), "mono", {to_s(x), to_s(ra)}); }); }
      if( g > run ) { run = g; run_arg = x; }
      }
    rec.add_states(S.size() * 2, S.size() * 2, S.size() * 4);
    }
    // two-call histories with aliased arguments (oddness is a relation to another call and is neutralised here)
    sweep_alias_histories(s, U_ATAN, -LIM47 + 1, LIM47 - 1, rec, ob | (4ull << 52), [&](i64 x, i64 got, u64 ord, HistViol& hv) { c.atan1(s, x, got, -got, ord, hv); });
    sweep_pairs(s, B_ATAN2, P, P, o.threads, rec, ob | (2ull << 52), [&](i64 y, i64 x, i64 got, u64 ord, LocalViol& lv) { c.atan2(s, y, x, got, ord, lv); });
    {
    const size_t B = 4096; size_t nb = (grid.size() + B - 1) / B;
    parallel_blocks(nb, o.threads, [&](size_t blk, int) {
      LocalViol lv(rec);
      size_t lo = blk * B, hi = std::min(grid.size(), lo + B);
      std::vector<i64> ys(hi - lo), xs(hi - lo), out(hi - lo);
      for( size_t i = lo; i < hi; ++i ) { ys[i - lo] = grid[i].first; xs[i - lo] = grid[i].second; }
      s->fm_bin_batch(B_ATAN2, ys.data(), xs.data(), hi - lo, out.data());
      for( size_t i = lo; i < hi; ++i ) c.atan2(s, grid[i].first, grid[i].second, out[i - lo], ob | (3ull << 52) | i, lv);
      });
    rec.add_states(grid.size(), grid.size(), grid.size());
    }
    }
  rec.count("oracle.decided_in_quad_precision", c.quad_fallbacks.load());
  rec.sample("atan(raw 2^46) = " + to_s(shims[0]->fm_un(U_ATAN, 1ll << 46)) + " (pi/2 constant 102944); atan2(raw 1, raw -65536) = " + to_s(shims[0]->fm_bin(B_ATAN2, 1, -65536)));
  rec.sample("atan2(0,0) = " + to_s(shims[0]->fm_bin(B_ATAN2, 0, 0)) + "; atan2(-5,0) = " + to_s(shims[0]->fm_bin(B_ATAN2, -5, 0)));
  }
void replay11(Options const& o, Shim* s, Recorder& rec)
  {
  C11 c(rec); DirectViol d{rec};
  if( o.rcase == "atan" ) { i64 x = parse_i64(o.rin.at(0)); i64 g = s->fm_un(U_ATAN, x); i64 gn = s->fm_un(U_ATAN, -x); c.atan1(s, x, g, gn, 0, d); }     // f(x) first: it may be the second call of a recorded history
  else if( o.rcase == "mono" )
    { // monotonicity counterexample: the pair (earlier_x <= x) is re-evaluated
    i64 x = parse_i64(o.rin.at(0)), xe = parse_i64(o.rin.at(1));
    i64 g = s->fm_un(U_ATAN, x), w = s->fm_un(U_ATAN, xe);
    if( xe <= x && g + 2 < w ) rec.viol(c.c_mono, 0, [&]{ return ex1(s, "atan monotone", "", {{"x",to_s(x)},{"earlier_x",to_s(xe)}}, ">= " + to_s(w - 2), to_s(g), o.rcase, o.rin); });
    }
  else { i64 y = parse_i64(o.rin.at(0)), x = parse_i64(o.rin.at(1)); c.atan2(s, y, x, s->fm_bin(B_ATAN2, y, x), 0, d); }
  rec.add_states(1,1,1);
  }

//====================================================================== C12
struct C12
  {
  Recorder& rec; int c_acc, c_odd, c_mono, c_acos, c_nan_in, c_not_nan_out;
  std::vector<Interval> tab;      // x + 65536
  u64 undecided = 0;
  explicit C12(Recorder& r) : rec(r), c_acc(r.cls("C12.asin.outside_tolerance")), c_odd(r.cls("C12.asin.not_odd")), c_mono(r.cls("C12.asin.decreasing")),
     c_acos(r.cls("C12.acos.not_within_1ulp_of_pi/2-asin")), c_nan_in(r.cls("C12.nan_inside_[-1,1]")), c_not_nan_out(r.cls("C12.not_nan_outside_[-1,1]")) {}
  static Interval one(i64 x, u64* und)
    {
    i64 xl = std::max<i64>(x - 2, -65536), xh = std::min<i64>(x + 2, 65536);
    Interval a = accept_interval(asinq(Q(xl)), 4 / 65536.0Q, und), b = accept_interval(asinq(Q(xh)), 4 / 65536.0Q, und);
    return Interval{ a.lo, b.hi };
    }
  void build() { tab.resize(131073); for( i64 x = -65536; x <= 65536; ++x ) tab[static_cast<size_t>(x + 65536)] = one(x, &undecided); }
  };

void explore12(Options const& o, std::vector<Shim*> const& shims, std::vector<Shim*> const&, Recorder& rec)
  {
  bool th = o.tier == "thorough";
  C12 c(rec); c.build();
  std::vector<i64> out_set;
  for( i64 x : merge_sets(th ? S_set(8,6,true) : S_set(6,4,true), S2_set(th ? 3 : 2)) ) if( x > 65536 || x < -65536 ) out_set.push_back(x);
  i64 W = th ? (1 << 22) : (1 << 18);
  for( i64 d = 1; d <= W; ++d ) { out_set.push_back(65536 + d); out_set.push_back(-65536 - d); }
  std::sort(out_set.begin(), out_set.end()); out_set.erase(std::unique(out_set.begin(), out_set.end()), out_set.end());
  rec.note("alphabet", "EVERY raw x in [-65536, 65536] (the complete domain, 131073 values) in every configuration (both square-root back-ends); outside: " + std::to_string(out_set.size()) + " values (S u +-NaN u every raw value up to 2^" + std::to_string(th ? 22 : 18) + " beyond +-1)");
  rec.count("oracle.undecided_borderline_intervals", c.undecided);
  const i64 PI2_LO = 102943, PI2_HI = 102944;      // floor and ceil of 65536*pi/2 = 102943.70...
  for( size_t ci = 0; ci < shims.size(); ++ci )
    {
    Shim* s = shims[ci];
    u64 ob = static_cast<u64>(ci) << 56;
    rec.count(std::string("configs_with_sqrt_backend.") + (s->sqrt_algo == 1 ? "abacus" : s->sqrt_algo == 2 ? "std" : "unknown"), 1);
    std::vector<i64> A(131073), C(131073);
    s->fm_un_range(U_ASIN, -65536, 131073, A.data());
    s->fm_un_range(U_ACOS, -65536, 131073, C.data());
    LocalViol lv(rec);
    for( i64 x = -65536; x <= 65536; ++x )
      {
      size_t i = static_cast<size_t>(x + 65536); i64 a = A[i], ac = C[i]; u64 ord = ob | i;
      Interval iv = c.tab[i];
      if( fx_isnan(a) || fx_isnan(ac) ) { lv.hit(c.c_nan_in, ord, [=]{ return ex1(s, fx_isnan(a) ? "asin" : "acos", "", {{"x",to_s(x)}}, "a value", "NaN", "in", {to_s(x)}); }); continue; }
      if( a < iv.lo || a > iv.hi ) lv.hit(c.c_acc, ord, [=]{ return ex1(s, "asin", s->sqrt_algo == 1 ? "sqrt=abacus" : "sqrt=std", {{"x",to_s(x)}}, "raw in [" + to_s(iv.lo) + "," + to_s(iv.hi) + "] (asin(x -+ 2ulp) -+ 4ulp)", to_s(a), "in", {to_s(x)}); });
      i64 am = A[static_cast<size_t>(-x + 65536)];
      if( am != -a ) lv.hit(c.c_odd, ord, [=]{ return ex1(s, "asin(-x) == -asin(x)", "", {{"x",to_s(x)}}, to_s(-a), to_s(am), "in", {to_s(x)}); });
      if( i > 0 && a < A[i - 1] ) { i64 p = A[i - 1]; lv.hit(c.c_mono, ord, [=]{ return ex1(s, "asin non-decreasing", "", {{"x",to_s(x)}}, ">= asin(x - 1ulp) = " + to_s(p), to_s(a), "in", {to_s(x)}); }); }
      // |acos - (pi/2 - asin)| <= 1 ulp with pi/2*65536 = 102943.70..  <=>  acos + asin in {102943, 102944}
      if( ac + a < PI2_LO || ac + a > PI2_HI ) lv.hit(c.c_acos, ord, [=]{ return ex1(s, "acos", "", {{"x",to_s(x)}}, "within 1 ulp of pi/2 - asin(x) = " + to_s(PI2_LO - a) + ".7", to_s(ac), "in", {to_s(x)}); });
      }
    rec.add_states(2 * 131073, 2 * 131073, 5 * 131073);
    // the complete domain once more with the thread's errno preset to EDOM / ERANGE before every call (a stale error of an unrelated libm call)
    for( int ev : { 33, 34 } ) for( int op : { U_ASIN, U_ACOS } )
      {
      std::vector<i64> const& base = op == U_ASIN ? A : C;
      parallel_blocks(33, o.threads, [&](size_t blk, int) {
        LocalViol lv2(rec);
        for( i64 x = -65536 + static_cast<i64>(blk) * 4096; x <= std::min<i64>(65536, -65536 + static_cast<i64>(blk) * 4096 + 4095); ++x )
          {
          size_t i = static_cast<size_t>(x + 65536); i64 g = s->fm_un_env(op, x, ev);
          if( g == base[i] ) continue;
          Interval iv = c.tab[i]; i64 lo = op == U_ASIN ? iv.lo : 102943 - iv.hi, hi = op == U_ASIN ? iv.hi : 102944 - iv.lo;
          if( fx_isnan(g) || g < lo || g > hi ) lv2.hit(op == U_ASIN ? c.c_acc : c.c_acos, ob | (3ull << 52) | (static_cast<u64>(ev) << 40) | (static_cast<u64>(op) << 32) | i, [=]{ return ex1(s, op == U_ASIN ? "asin" : "acos", std::string("errno preset to ") + (ev == 33 ? "EDOM" : "ERANGE") + " before the call",
              {{"x",to_s(x)}}, "raw in [" + to_s(lo) + "," + to_s(hi) + "]", to_s(g), "env", {to_s(op), to_s(x), to_s(ev)}); });
          }
        });
      rec.add_states(131073, 131073, 131073); rec.count("calls_with_errno_preset", 131073);
      }
    for( int op : { U_ASIN, U_ACOS } )
      sweep_un_set(s, op, out_set, o.threads, rec, ob | (1ull << 52) | (static_cast<u64>(op) << 48), [&](i64 x, i64 got, u64 ord, LocalViol& lv2) {
        if( !fx_isnan(got) ) lv2.hit(c.c_not_nan_out, ord, [=]{ return ex1(s, op == U_ASIN ? "asin" : "acos", "", {{"x",to_s(x)}}, "NaN (|x| > 1)", to_s(got), "out", {to_s(op), to_s(x)}); }); });
    }
  rec.sample("asin(raw 65536) = " + to_s(shims[0]->fm_un(U_ASIN, 65536)) + ", acos(raw -65536) = " + to_s(shims[0]->fm_un(U_ACOS, -65536)) + ", asin(raw 65537) = " + to_s(shims[0]->fm_un(U_ASIN, 65537)));
  }
void replay12(Options const& o, Shim* s, Recorder& rec)
  {
  C12 c(rec);
  if( o.rcase == "env" )
    { int op = static_cast<int>(parse_i64(o.rin.at(0))); i64 x = parse_i64(o.rin.at(1)); int ev = static_cast<int>(parse_i64(o.rin.at(2))); i64 g = s->fm_un_env(op, x, ev);
      Interval iv = C12::one(x, nullptr); i64 lo = op == U_ASIN ? iv.lo : 102943 - iv.hi, hi = op == U_ASIN ? iv.hi : 102944 - iv.lo;
      if( fx_isnan(g) || g < lo || g > hi ) rec.viol(op == U_ASIN ? c.c_acc : c.c_acos, 0, [&]{ return ex1(s, op == U_ASIN ? "asin" : "acos", "errno preset", {{"x",to_s(x)}}, "[" + to_s(lo) + "," + to_s(hi) + "]", to_s(g), o.rcase, o.rin); });
      rec.add_states(1,1,1); return; }
  if( o.rcase == "out" ) { int op = static_cast<int>(parse_i64(o.rin.at(0))); i64 x = parse_i64(o.rin.at(1)); i64 g = s->fm_un(op, x);
    if( !fx_isnan(g) ) rec.viol(c.c_not_nan_out, 0, [&]{ return ex1(s, op == U_ASIN ? "asin" : "acos", "", {{"x",to_s(x)}}, "NaN", to_s(g), o.rcase, o.rin); }); }
  else
    {
    i64 x = parse_i64(o.rin.at(0)); i64 a = s->fm_un(U_ASIN, x), ac = s->fm_un(U_ACOS, x), am = s->fm_un(U_ASIN, -x);
    Interval iv = C12::one(x, nullptr);
    auto v = [&](int cl, std::string e, std::string g) { rec.viol(cl, 0, [&]{ return ex1(s, "asin/acos", "", {{"x",to_s(x)}}, e, g, o.rcase, o.rin); }); };
    if( fx_isnan(a) || fx_isnan(ac) ) v(c.c_nan_in, "a value", "NaN");
    else
      {
      if( a < iv.lo || a > iv.hi ) v(c.c_acc, "[" + to_s(iv.lo) + "," + to_s(iv.hi) + "]", to_s(a));
      if( am != -a ) v(c.c_odd, to_s(-a), to_s(am));
      if( x > -65536 ) { i64 p = s->fm_un(U_ASIN, x - 1); if( a < p ) v(c.c_mono, ">= " + to_s(p), to_s(a)); }
      if( ac + a < 102943 || ac + a > 102944 ) v(c.c_acos, "acos + asin in {102943,102944}", to_s(ac));
      }
    }
  rec.add_states(1,1,1);
  }
bool judge11(Shim* s, Recorder& rec, std::string const& kind, std::vector<u64> const& a, u64 value, u64 idx)
  {
  C11 c(rec); DirectViol d{rec};
  if( kind == "un" && a.size() == 2 && a[0] == U_ATAN )
    { i64 x = static_cast<i64>(a[1]), got = static_cast<i64>(value); if( x > -LIM47 && x < LIM47 ) c.atan1(s, x, got, -got, idx, d); return true; }     // oddness is a relation between two calls: judged as a law line
  if( kind == "bin" && a.size() == 3 && a[0] == B_ATAN2 )
    { i64 y = static_cast<i64>(a[1]), x = static_cast<i64>(a[2]); if( y > -LIM47 && y < LIM47 && x > -LIM47 && x < LIM47 ) c.atan2(s, y, x, static_cast<i64>(value), idx, d); return true; }
  return false;
  }
bool judge12(Shim* s, Recorder& rec, std::string const& kind, std::vector<u64> const& a, u64 value, u64 idx)
  {
  if( !(kind == "un" && a.size() == 2 && (a[0] == U_ASIN || a[0] == U_ACOS)) ) return false;
  C12 c(rec);
  int op = static_cast<int>(a[0]); i64 x = static_cast<i64>(a[1]), got = static_cast<i64>(value);
  if( !fx_finite(x) && !fx_isnan(x) ) return true;
  const char* nm = op == U_ASIN ? "asin" : "acos";
  if( x > 65536 || x < -65536 ) { if( !fx_isnan(got) ) rec.viol(c.c_not_nan_out, idx, [&]{ return ex1(s, nm, "", {{"x",to_s(x)}}, "NaN (|x| > 1)", to_s(got), "out", {}); }); return true; }
  if( fx_isnan(got) ) { rec.viol(c.c_nan_in, idx, [&]{ return ex1(s, nm, "", {{"x",to_s(x)}}, "a value", "NaN", "in", {}); }); return true; }
  Interval iv = C12::one(x, nullptr);
  if( op == U_ASIN ) { if( got < iv.lo || got > iv.hi ) rec.viol(c.c_acc, idx, [&]{ return ex1(s, "asin", "", {{"x",to_s(x)}}, "raw in [" + to_s(iv.lo) + "," + to_s(iv.hi) + "] (asin(x -+ 2ulp) -+ 4ulp)", to_s(got), "in", {}); }); }
  else { i64 lo = 102943 - iv.hi, hi = 102944 - iv.lo;     // acos within 1 ulp of pi/2 - asin(x) for SOME admissible asin(x): a necessary condition; the relation itself is a law line
         if( got < lo || got > hi ) rec.viol(c.c_acos, idx, [&]{ return ex1(s, "acos", "", {{"x",to_s(x)}}, "raw in [" + to_s(lo) + "," + to_s(hi) + "] (within 1 ulp of pi/2 - an admissible asin(x))", to_s(got), "in", {}); }); }
  return true;
  }
}
REGISTER_PROPERTY(C11, explore11, replay11)
REGISTER_JUDGE(C11, judge11)
REGISTER_JUDGE(C12, judge12)
REGISTER_PROPERTY(C12, explore12, replay12)
