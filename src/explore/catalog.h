// Catalogue of every public entry point with its argument space, used by C07 (no UB / trap / OOB) and
// C08 (results independent of the build configuration). An entry enumerates the product A x B.
#pragma once
#include "common.h"
#include "types.h"

struct Entry
  {
  std::string name;                                   // e.g. "operator+ (fixed,fixed)"
  std::function<u64(Shim*, u64, u64)> call;
  std::vector<u64> A, B;                              // B empty: unary
  bool sqrt_dep {};                                   // result depends on the selected sqrt algorithm
  bool dbl {};                                        // result is the bit pattern of a double
  std::string an {"a"}, bn {"b"};
  std::function<std::string(u64)> afmt, bfmt;
  };

inline std::vector<u64> as_u64(std::vector<i64> const& v) { std::vector<u64> r; r.reserve(v.size()); for( i64 x : v ) r.push_back(static_cast<u64>(x)); return r; }
inline std::string fmt_i(u64 v) { return to_s(static_cast<i64>(v)); }

inline std::vector<u64> cat_float_values(int w)
  {
  std::vector<u64> v;
  for( u64 sg = 0; sg < 2; ++sg ) for( u64 ex = 0; ex < 256; ++ex )
    for( u64 hi = 0; hi < (1ull << w); ++hi ) for( u64 lo = 0; lo < (1ull << w); ++lo ) for( u64 fill : { 0ull, (1ull << (23 - 2*w)) - 1 } )
      v.push_back((sg << 31) | (ex << 23) | (hi << (23 - w)) | (fill << w) | lo);
  std::sort(v.begin(), v.end()); v.erase(std::unique(v.begin(), v.end()), v.end());
  return v;
  }
inline std::vector<u64> cat_double_values(int w)
  {
  std::vector<u64> v;
  for( u64 sg = 0; sg < 2; ++sg ) for( u64 ex = 0; ex < 2048; ++ex )
    {
    bool dense = ex >= 1023 - 20 && ex <= 1023 + 64;
    if( !dense && ex % 64 != 0 && ex != 1 && ex != 2046 && ex != 2047 ) continue;
    int ww = dense ? w : 1;
    for( u64 hi = 0; hi < (1ull << ww); ++hi ) for( u64 lo = 0; lo < (1ull << ww); ++lo ) for( u64 fill : { 0ull, (1ull << (52 - 2*ww)) - 1 } )
      v.push_back((sg << 63) | (ex << 52) | (hi << (52 - ww)) | (fill << ww) | lo);
    }
  std::sort(v.begin(), v.end()); v.erase(std::unique(v.begin(), v.end()), v.end());
  return v;
  }
inline std::string fmt_f32(u64 b) { uint32_t x = static_cast<uint32_t>(b); float f; std::memcpy(&f, &x, 4); return dbl_s(f) + " (float bits " + hex(b) + ")"; }
inline std::string fmt_f64(u64 b) { double d; std::memcpy(&d, &b, 8); return dbl_s(d) + " (double bits " + hex(b) + ")"; }

// level 0: quick, 1: thorough
inline std::vector<Entry> build_catalog(int level, bool with_nan_args)
  {
  std::vector<Entry> cat;
  std::vector<u64> Su = as_u64(merge_sets(S_set(level ? 8 : 6, 4, with_nan_args), S2_set(level ? 3 : 2)));
  for( i64 d = -(1 << 12); d <= (1 << 12); ++d ) Su.push_back(static_cast<u64>(d));
  std::sort(Su.begin(), Su.end()); Su.erase(std::unique(Su.begin(), Su.end()), Su.end());
  std::vector<u64> Sb = as_u64(S_set(level ? 4 : 3, level ? 2 : 1, with_nan_args));
  std::vector<u64> Sm = as_u64(S_set(level ? 3 : 2, 1, with_nan_args));
  static const char* UN[U_COUNT] = { "operator- (unary)", "abs", "isnan", "floor", "ceil", "sin", "cos", "tan", "atan", "asin", "acos", "sqrt", "detail::sqrt_abacus", "detail::sqrt_std_math",
                                      "sqrt_aprox", "atan_index_aprox", "atan_aprox", "sin_angle(fixed_t)", "cos_angle(fixed_t)", "tan_angle(fixed_t)",
                                      "x += x (same object)", "x -= x (same object)", "x *= x (same object)", "x /= x (same object)" };
  for( int op = 0; op < U_COUNT; ++op )
    {
    Entry e; e.name = UN[op]; e.call = [op](Shim* s, u64 a, u64) { return static_cast<u64>(s->fm_un(op, static_cast<i64>(a))); };
    e.A = Su; e.sqrt_dep = op == U_SQRT || op == U_ASIN || op == U_ACOS; e.afmt = fmt_i; e.an = "x";
    cat.push_back(e);
    }
  static const char* BN[B_COUNT] = { "operator+ (fixed,fixed)", "operator- (fixed,fixed)", "operator* (fixed,fixed)", "operator/ (fixed,fixed)", "operator+= (fixed,fixed)", "operator-= (fixed,fixed)",
                                      "operator*= (fixed,fixed)", "operator/= (fixed,fixed)", "atan2", "hypot", "hypot_aprox", "operator&", "operator==", "operator!=", "operator<", "operator<=", "operator>", "operator>=" };
  for( int op = 0; op < B_COUNT; ++op )
    {
    Entry e; e.name = BN[op]; e.call = [op](Shim* s, u64 a, u64 b) { return static_cast<u64>(s->fm_bin(op, static_cast<i64>(a), static_cast<i64>(b))); };
    e.A = Sb; e.B = Sb; e.sqrt_dep = op == B_HYPOT; e.afmt = fmt_i; e.bfmt = fmt_i;
    if( op == B_ATAN2 ) { e.an = "y"; e.bn = "x"; }
    cat.push_back(e);
    }
  {
  std::vector<u64> R; for( i64 r : std::vector<i64>{ INT32_MIN, static_cast<i64>(INT32_MIN) + 1, -65536, -(1ll << 30) } ) R.push_back(static_cast<u64>(r));
  for( i64 r = -80; r <= 63; ++r ) R.push_back(static_cast<u64>(r));
  for( int left = 0; left < 2; ++left )
    {
    Entry e; e.name = left ? "operator<< (fixed,int)" : "operator>> (fixed,int)";
    e.call = [left](Shim* s, u64 a, u64 r) { return static_cast<u64>(s->fm_shift(left, static_cast<i64>(a), static_cast<int>(static_cast<i64>(r)))); };
    e.A = as_u64(S_set(level ? 5 : 4, 2, with_nan_args)); e.B = R; e.afmt = fmt_i; e.bfmt = fmt_i; e.an = "x"; e.bn = "r";
    cat.push_back(e);
    }
  }
  std::vector<std::vector<u64>> tv(T_CODES);
  for( int t : INT_TYPES ) tv[t] = int_type_values(t, level ? 5 : 3, 1, level ? 32 : 4, level != 0);
  tv[T_F32] = cat_float_values(level ? 3 : 2); tv[T_F64] = cat_double_values(level ? 3 : 2);
  static const char* FIN[3] = { "fixed_t{n}", "integral_to_fixed", "make_fixed" };
  static const char* TIN[3] = { "fixed_to_integral", "static_cast<T>(fixed)", "fixed_to_arithmetic" };
  static const char* FFN[3] = { "fixed_t{v}", "floating_point_to_fixed", "make_fixed" };
  static const char* TFN[2] = { "fixed_to_floating_point", "static_cast<T>(fixed)" };
  for( int t : INT_TYPES )
    {
    for( int how = 0; how < FI_COUNT; ++how )
      { Entry e; e.name = std::string(FIN[how]) + " <" + TN[t] + ">"; e.call = [how,t](Shim* s, u64 a, u64) { return static_cast<u64>(s->fm_from_int(how, t, a)); };
        e.A = int_type_values(t, level ? 6 : 4, 2, level ? 256 : 32); e.afmt = [t](u64 b) { return int_s(t, b); }; e.an = "n"; cat.push_back(e); }
    for( int how = 0; how < TI_COUNT; ++how )
      { Entry e; e.name = std::string(TIN[how]) + " <" + TN[t] + ">"; e.call = [how,t](Shim* s, u64 a, u64) { return s->fm_to_int(how, t, static_cast<i64>(a)); };
        e.A = Su; e.afmt = fmt_i; e.an = "x"; cat.push_back(e); }
    { Entry e; e.name = std::string("angle_to_radians <") + TN[t] + ">"; e.call = [t](Shim* s, u64 a, u64) { return static_cast<u64>(s->fm_angle_to_radians(t, a)); };
      e.A = int_type_values(t, level ? 6 : 4, 2, level ? 1024 : 400); e.afmt = [t](u64 b) { return int_s(t, b); }; e.an = "d"; cat.push_back(e); }
    }
  for( int t : { T_F32, T_F64 } )
    {
    for( int how = 0; how < FF_COUNT; ++how )
      { Entry e; e.name = std::string(FFN[how]) + " <" + TN[t] + ">"; e.call = [how,t](Shim* s, u64 a, u64) { return static_cast<u64>(s->fm_from_fp(how, t, a)); };
        e.A = t == T_F32 ? cat_float_values(level ? 5 : 4) : cat_double_values(level ? 5 : 4); e.afmt = t == T_F32 ? fmt_f32 : fmt_f64; e.an = "v"; cat.push_back(e); }
    for( int how = 0; how < TF_COUNT; ++how )
      { Entry e; e.name = std::string(TFN[how]) + " <" + TN[t] + ">"; e.call = [how,t](Shim* s, u64 a, u64) { return s->fm_to_fp(how, t, static_cast<i64>(a)); };
        e.A = Su; e.afmt = fmt_i; e.an = "x"; e.dbl = t == T_F64; cat.push_back(e); }
    }
  static const char* OPC[4] = { "+", "-", "*", "/" };
  static const char* ORD[3] = { "fixed op T", "T op fixed", "fixed op= T" };
  for( int t : ALL_TYPES ) for( int op = 0; op < 4; ++op ) for( int ord = 0; ord < 3; ++ord )
    {
    if( t == T_F64 && ord == O_ASSIGN ) continue;
    Entry e; e.name = std::string("operator") + OPC[op] + " (" + ORD[ord] + ", T=" + TN[t] + ")";
    e.call = [op,t,ord](Shim* s, u64 a, u64 b) { return s->fm_mixed(op, t, ord, static_cast<i64>(a), b); };
    e.A = Sm; e.B = tv[t]; e.afmt = fmt_i; e.bn = "t"; e.dbl = t == T_F64;
    e.bfmt = is_int_type(t) ? std::function<std::string(u64)>([t](u64 b) { return int_s(t, b); }) : t == T_F32 ? std::function<std::string(u64)>(fmt_f32) : std::function<std::string(u64)>(fmt_f64);
    cat.push_back(e);
    }
  {
  std::vector<u64> sv = as_u64(std::vector<i64>{ 0, 65536, -65536, 98304, -98305, 127 * 65536 + 1, 255 * 65536 + 65535, 32767ll * 65536, -32768ll * 65536 - 1, (1ll << 31) * 65536 - 1, 1ll << 62, 0x7ffffffffffffffell, -0x7ffffffffffffffell, 5, 12345678901ll });
  for( int t : ALL_TYPES )
    { Entry e; e.name = std::string("static_cast<") + TN[t] + ">(x) twice in one function, x modified in between"; e.dbl = t == T_F64;
      e.call = [t](Shim* s, u64 a, u64 b) { u64 r1 = 0, r2 = 0; s->fm_seq_conv(t, static_cast<i64>(a), static_cast<i64>(b), &r1, &r2); return r2 ^ (r1 * 0x9e3779b97f4a7c15ull); };
      e.A = sv; e.B = sv; e.afmt = fmt_i; e.bfmt = fmt_i; cat.push_back(e); }
  for( int op = 0; op < U_COUNT; ++op )
    { Entry e; e.name = std::string(UN[op]) + " called twice on one object, modified in between"; e.sqrt_dep = op == U_SQRT || op == U_ASIN || op == U_ACOS;
      e.call = [op](Shim* s, u64 a, u64 b) { i64 r1 = 0, r2 = 0; s->fm_seq_un(op, static_cast<i64>(a), static_cast<i64>(b), &r1, &r2); return static_cast<u64>(r2) ^ (static_cast<u64>(r1) * 0x9e3779b97f4a7c15ull); };
      e.A = sv; e.B = sv; e.afmt = fmt_i; e.bfmt = fmt_i; cat.push_back(e); }
  std::vector<u64> cv = as_u64(std::vector<i64>{ 0, 1, 65536, -65536, 3 * 65536, -98304, 205887, 1ll << 40, -(1ll << 46), 1ll << 62, 0x7ffffffffffffffell, -0x7ffffffffffffffell });
  for( int o1 = 0; o1 < 4; ++o1 ) for( int o2 = 0; o2 < 4; ++o2 )
    { Entry e; e.name = std::string("x ") + "+-*/"[o1] + "= b; x " + "+-*/"[o2] + "= b'; in one function"; e.bn = "b";
      e.call = [o1,o2](Shim* s, u64 a, u64 b) { return static_cast<u64>(s->fm_seq_compound(o1, o2, static_cast<i64>(a), static_cast<i64>(b), static_cast<i64>(b >> 3) - 7)); };
      e.A = as_u64(S_set(2, 1, with_nan_args)); e.B = cv; e.afmt = fmt_i; e.bfmt = fmt_i; cat.push_back(e); }
  }
  static const char* AF[3] = { "sin_angle", "cos_angle", "tan_angle" };
  for( int fn = 0; fn < A_COUNT; ++fn ) for( int t : { T_I8, T_I16, T_I32, T_I64, T_U8, T_U16, T_U32, T_U64, T_LL, T_ULL, T_F32 } )
    {
    Entry e; e.name = std::string(AF[fn]) + " <" + TN[t] + ">"; e.call = [fn,t](Shim* s, u64 a, u64) { return static_cast<u64>(s->fm_xangle(fn, t, a)); };
    e.A = is_int_type(t) ? int_type_values(t, level ? 6 : 4, 2, level ? 1024 : 400) : cat_float_values(level ? 4 : 3); e.an = "angle";
    e.afmt = is_int_type(t) ? std::function<std::string(u64)>([t](u64 b) { return int_s(t, b); }) : std::function<std::string(u64)>(fmt_f32);
    cat.push_back(e);
    }
  {
  static const char* TBN[4] = { "sin_angle_tab", "cos_angle_tab", "tan_tab", "square_root_tab" }; const unsigned sz[4] = { 361, 361, 256, 256 };
  for( int w = 0; w < 4; ++w ) { Entry e; e.name = TBN[w]; e.call = [w](Shim* s, u64 a, u64) { return static_cast<u64>(s->fm_table(w, static_cast<unsigned>(a))); }; for( unsigned i = 0; i < sz[w]; ++i ) e.A.push_back(i); e.afmt = fmt_i; e.an = "index"; cat.push_back(e); }
  }
  { // the streaming operator of <fixedmath/iostream.h>: the text it writes, as an FNV-1a hash (identical text in every configuration)
  Entry e; e.name = "operator<< (std::ostream, fixed_t)";
  e.call = [](Shim* s, u64 a, u64) { char buf[96]; size_t n = s->fm_stream(static_cast<i64>(a), buf, sizeof buf); u64 h = 1469598103934665603ull ^ n;
                                     for( size_t i = 0; i < std::min(n, sizeof buf); ++i ) { h ^= static_cast<unsigned char>(buf[i]); h *= 1099511628211ull; } return h; };
  e.A = Su; e.afmt = fmt_i; e.an = "x"; cat.push_back(e);
  }
  return cat;
  }
