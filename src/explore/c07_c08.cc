// C07 no UB / trap / out-of-bounds access in any public entry point (sanitizer lane + index probe),
// C08 results independent of compiler / -O level / standard (cross-configuration equality, abacus vs std).
#include "catalog.h"

namespace {
struct Probe
  {
  std::string name; void* h {};
  void (*fm_angle_index_range)(int, int32_t, size_t, i64*) {};
  i64 (*fm_angle_index)(int, int32_t) {};
  };
Probe* load_probe(std::string const& dir, std::string const& name)
  {
  Probe* p = new Probe; p->name = name;
  std::string path = dir + "/" + name + ".so";
  p->h = dlopen(path.c_str(), RTLD_NOW | RTLD_LOCAL);
  if( !p->h ) { std::fprintf(stderr, "INTERNAL: dlopen %s: %s\n", path.c_str(), dlerror()); std::exit(2); }
  p->fm_angle_index_range = reinterpret_cast<void(*)(int,int32_t,size_t,i64*)>(dlsym(p->h, "fm_angle_index_range"));
  p->fm_angle_index = reinterpret_cast<i64(*)(int,int32_t)>(dlsym(p->h, "fm_angle_index"));
  if( !p->fm_angle_index_range || !p->fm_angle_index ) { std::fprintf(stderr, "INTERNAL: probe symbols missing\n"); std::exit(2); }
  return p;
  }
std::string sanitize_cls(std::string s) { for( char& c : s ) if( c == ' ' ) c = '_'; return s; }

// one guarded call on a sanitized shim; returns "" when clean, otherwise the kind of event
struct Event { std::string kind, where; };
template<typename F> bool run_checked(Shim* s, F && f, Event& ev)
  {
  u64 before = s->fm_ub_count();
  int sig = guarded(f);
  if( s->fm_ub_count() != before )
    {   // the first cause is the UB event; a fault that follows it (e.g. the out-of-bounds read itself) depends on memory layout and is not part of the class
    std::string last = s->fm_ub_last();
    size_t at = last.find('@');
    ev.kind = last.substr(0, at); ev.where = last + (sig ? " (followed by signal " + std::to_string(sig) + ")" : "");
    if( sig ) { s->fm_ub_reset(); }
    return false;
    }
  if( sig ) { ev.kind = sig == SIGFPE ? "trap_SIGFPE" : sig == SIGSEGV ? "trap_SIGSEGV" : sig == SIGABRT ? "abort" : "signal_" + std::to_string(sig); ev.where = "killed by signal " + std::to_string(sig); return false; }
  return true;
  }

struct ClsCache
  {
  Recorder& rec; std::map<std::string,int> m;
  explicit ClsCache(Recorder& r) : rec(r) {}
  int get(std::string const& n) { auto it = m.find(n); if( it != m.end() ) return it->second; int c = rec.cls(n); m[n] = c; return c; }
  };

//====================================================================== C07
void explore07(Options const& o, std::vector<Shim*> const&, std::vector<Shim*> const& san, Recorder& rec)
  {
  bool th = o.tier == "thorough";
  std::vector<Entry> cat = build_catalog(th ? 1 : 0, true);
  u64 total_states = 0; for( auto& e : cat ) total_states += static_cast<u64>(e.A.size()) * std::max<size_t>(1, e.B.size());
  rec.note("alphabet", std::to_string(cat.size()) + " entry points (every operator and op= for fixed and the ten operand types, conversions, shifts, &, comparisons, floor, ceil, abs, isnan, sin..acos, atan2, sqrt (both algorithms), hypot, "
           "angle_to_radians, *_angle, the compiled table functions and accessors) x their argument spaces extended by +-NaN and the extreme finite values: " + std::to_string(total_states)
           + " states per sanitized configuration; sin/cos_angle_aprox: table index of ALL 2^32 angles through the index probe, plus sanitized execution on S-shaped angles and [-2^16, 2^16]");
  if( san.empty() ) { rec.cap("no sanitized shim available"); return; }
  for( size_t ci = 0; ci < san.size(); ++ci )
    {
    Shim* s = san[ci];
    for( size_t ei = 0; ei < cat.size(); ++ei )
      {
      Entry const& e = cat[ei];
      size_t nb = std::max<size_t>(1, e.B.size());
      const size_t CH = 64; size_t nblk = (e.A.size() + CH - 1) / CH;
      parallel_blocks(nblk, o.threads, [&](size_t blk, int) {
        LocalViol lv(rec); ClsCache cc(rec);
        for( size_t ia = blk * CH; ia < std::min(e.A.size(), (blk + 1) * CH); ++ia ) for( size_t ib = 0; ib < nb; ++ib )
          {
          u64 a = e.A[ia], b = e.B.empty() ? 0 : e.B[ib];
          Event ev;
          if( run_checked(s, [&]{ e.call(s, a, b); }, ev) ) continue;
          int c = cc.get("C07." + sanitize_cls(e.name) + "." + ev.kind);
          u64 ord = (static_cast<u64>(ci) << 56) | (static_cast<u64>(ei) << 40) | (ia * nb + ib);
          Entry const* ep = &e;
          lv.hit(c, ord, [=]{ Example x; x.entry = ep->name; x.cfg = s->name; x.inputs = {{ep->an, ep->afmt(a)}}; if( !ep->B.empty() ) x.inputs.push_back({ep->bn, ep->bfmt(b)});
                              x.expected = "returns normally without undefined behaviour"; x.got = ev.where; x.rcase = "entry"; x.rin = { ep->name, to_su(a), to_su(b) }; return x; });
          }
        });
      u64 n = static_cast<u64>(e.A.size()) * nb; rec.add_states(n, n, n);
      }
    // dense windows: every raw value of a window of 2^18 (quick) / 2^22 (thorough) at several magnitudes, for every unary entry point
    {
    static const char* UN3[U_COUNT] = { "operator- (unary)", "abs", "isnan", "floor", "ceil", "sin", "cos", "tan", "atan", "asin", "acos", "sqrt", "detail::sqrt_abacus", "detail::sqrt_std_math",
                                        "sqrt_aprox", "atan_index_aprox", "atan_aprox", "sin_angle(fixed_t)", "cos_angle(fixed_t)", "tan_angle(fixed_t)",
                                        "x += x (same object)", "x -= x (same object)", "x *= x (same object)", "x /= x (same object)" };
    i64 W = th ? (1ll << 22) : (1ll << 18);
    std::vector<i64> bases { -W / 2, 1ll << 32, -(1ll << 32) - W, (1ll << 40) + 12345, 1ll << 47, -(1ll << 47) - W, (1ll << 62) + 999, FX_MAX - W, FX_LOWEST };
    for( int op = 0; op < U_COUNT; ++op ) for( i64 base : bases )
      {
      const i64 B = 1 << 12; size_t nb = static_cast<size_t>(W / B);
      parallel_blocks(nb, o.threads, [&](size_t blk, int) {
        std::vector<i64> out(B); Event ev; i64 x0 = base + static_cast<i64>(blk) * B;
        if( run_checked(s, [&]{ s->fm_un_range(op, x0, B, out.data()); }, ev) ) return;
        LocalViol lv(rec); ClsCache cc(rec);
        for( i64 k = 0; k < B; ++k )
          { i64 x = x0 + k; Event e2; if( run_checked(s, [&]{ s->fm_un(op, x); }, e2) ) continue;
            int c = cc.get("C07." + sanitize_cls(UN3[op]) + "." + e2.kind);
            lv.hit(c, (static_cast<u64>(ci) << 56) | (0xffcull << 40) | (static_cast<u64>(op) << 32) | static_cast<u64>(static_cast<uint32_t>(x)), [=]{ Example xm; xm.entry = UN3[op]; xm.cfg = s->name; xm.shape = "dense window"; xm.inputs = {{"x", to_s(x)}};
              xm.expected = "returns normally without undefined behaviour"; xm.got = e2.where; xm.rcase = "entry"; xm.rin = { UN3[op], to_su(static_cast<u64>(x)), "0" }; return xm; }); }
        });
      rec.add_states(static_cast<u64>(W), static_cast<u64>(W), static_cast<u64>(W));
      }
    }
    // adaptive boundary windows: wherever the NaN-ness of a result changes between two neighbouring members of S the exact argument
    // at which it changes is located by bisection (a range guard of the implementation, at whatever constant it computes), and every
    // raw value within 2048 of it is executed under the sanitizer: guards that are off by a rounding term fail just inside them
    {
    static const char* UN4[U_COUNT] = { "operator- (unary)", "abs", "isnan", "floor", "ceil", "sin", "cos", "tan", "atan", "asin", "acos", "sqrt", "detail::sqrt_abacus", "detail::sqrt_std_math",
                                        "sqrt_aprox", "atan_index_aprox", "atan_aprox", "sin_angle(fixed_t)", "cos_angle(fixed_t)", "tan_angle(fixed_t)",
                                        "x += x (same object)", "x -= x (same object)", "x *= x (same object)", "x /= x (same object)" };
    std::vector<i64> Sx = S_set(6, 2);
    u64 nwin = 0;
    for( int op = 0; op < U_COUNT; ++op )
      {
      if( op == U_ISNAN ) continue;
      std::vector<char> isn(Sx.size());
      parallel_blocks((Sx.size() + 1023) / 1024, o.threads, [&](size_t blk, int) { for( size_t i = blk * 1024; i < std::min(Sx.size(), (blk + 1) * 1024); ++i ) { i64 g = 0; int sg = guarded([&]{ g = s->fm_un(op, Sx[i]); }); isn[i] = sg ? 2 : fx_isnan(g) ? 1 : 0; } });
      std::vector<i64> bounds;
      for( size_t i = 1; i < Sx.size(); ++i ) if( isn[i] != isn[i - 1] && isn[i] != 2 && isn[i - 1] != 2 && Sx[i] - Sx[i - 1] > 1 )
        {
        i64 lo = Sx[i - 1], hi = Sx[i]; char vlo = isn[i - 1];
        while( hi - lo > 1 ) { i64 mid = lo + (hi - lo) / 2; i64 g = 0; int sg = guarded([&]{ g = s->fm_un(op, mid); }); char v = sg ? 2 : fx_isnan(g) ? 1 : 0; if( v == vlo ) lo = mid; else hi = mid; }
        bounds.push_back(hi);
        }
      // ... and wherever a constant tail begins: beyond a range guard many functions return one fixed value (NaN, a saturated result, or
      // whatever the series makes of a NaN argument); the first argument of that tail is located the same way
      {
      std::vector<i64> val(Sx.size()); std::vector<char> okv(Sx.size());
      parallel_blocks((Sx.size() + 1023) / 1024, o.threads, [&](size_t blk, int) { for( size_t i = blk * 1024; i < std::min(Sx.size(), (blk + 1) * 1024); ++i ) { i64 g = 0; int sg = guarded([&]{ g = s->fm_un(op, Sx[i]); }); val[i] = g; okv[i] = sg == 0; } });
      auto same = [&](i64 x, i64 v) { i64 g = 0; int sg = guarded([&]{ g = s->fm_un(op, x); }); return sg == 0 && g == v; };
      if( Sx.size() > 8 )
        {
        size_t j = Sx.size() - 1; while( j > 0 && okv[j - 1] && okv[j] && val[j - 1] == val[Sx.size() - 1] ) --j;          // tail towards +max
        if( okv[Sx.size() - 1] && Sx.size() - j >= 3 && j > 0 && Sx[j] - Sx[j - 1] > 1 )
          { i64 lo = Sx[j - 1], hi = Sx[j], v = val[Sx.size() - 1]; while( hi - lo > 1 ) { i64 mid = lo + (hi - lo) / 2; if( same(mid, v) ) hi = mid; else lo = mid; } bounds.push_back(hi); }
        size_t k = 0; while( k + 1 < Sx.size() && okv[k + 1] && okv[k] && val[k + 1] == val[0] ) ++k;                           // tail towards lowest
        if( okv[0] && k >= 2 && k + 1 < Sx.size() && Sx[k + 1] - Sx[k] > 1 )
          { i64 lo = Sx[k], hi = Sx[k + 1], v = val[0]; while( hi - lo > 1 ) { i64 mid = lo + (hi - lo) / 2; if( same(mid, v) ) lo = mid; else hi = mid; } bounds.push_back(lo); }
        }
      }
      if( bounds.size() > 64 ) bounds.resize(64);      // a function whose NaN-ness alternates (poles of tan) is covered by its own property
      for( i64 b : bounds )
        {
        ++nwin;
        const i64 Wd = 2048;
        parallel_blocks(8, o.threads, [&](size_t blk, int) {
          LocalViol lv(rec); ClsCache cc(rec);
          for( i64 x = b - Wd + static_cast<i64>(blk) * 512; x < b - Wd + static_cast<i64>(blk + 1) * 512; ++x )
            {
            if( !fx_finite(x) ) continue;
            Event e2; if( run_checked(s, [&]{ s->fm_un(op, x); }, e2) ) continue;
            int c = cc.get("C07." + sanitize_cls(UN4[op]) + "." + e2.kind);
            lv.hit(c, (static_cast<u64>(ci) << 56) | (0xffbull << 40) | (static_cast<u64>(op) << 32) | static_cast<u64>(static_cast<uint32_t>(x)), [=]{ Example xm; xm.entry = UN4[op]; xm.cfg = s->name; xm.shape = "window around a located range guard (the result changes its NaN-ness or becomes constant at " + to_s(b) + ")"; xm.inputs = {{"x", to_s(x)}};
              xm.expected = "returns normally without undefined behaviour"; xm.got = e2.where; xm.rcase = "entry"; xm.rin = { UN4[op], to_su(static_cast<u64>(x)), "0" }; return xm; });
            }
          });
        rec.add_states(4096, 4096, 4096);
        }
      }
    rec.count("located_range_guards", nwin);
    }
    // sin/cos_angle_aprox under the sanitizer (the out-of-bounds index of std::array is reported by -fsanitize=bounds before the read)
    {
    std::vector<i64> ds; for( i64 x : S_set(6,4,true,true) ) ds.push_back(static_cast<int32_t>(static_cast<uint32_t>(static_cast<u64>(x))));
    for( i64 d = -(1 << 16); d <= (1 << 16); ++d ) ds.push_back(d);
    std::sort(ds.begin(), ds.end()); ds.erase(std::unique(ds.begin(), ds.end()), ds.end());
    for( int cosine = 0; cosine < 2; ++cosine )
      {
      const size_t CH = 1024; size_t nblk = (ds.size() + CH - 1) / CH;
      parallel_blocks(nblk, o.threads, [&](size_t blk, int) {
        LocalViol lv(rec); ClsCache cc(rec);
        for( size_t i = blk * CH; i < std::min(ds.size(), (blk + 1) * CH); ++i )
          {
          int32_t d = static_cast<int32_t>(ds[i]); Event ev;
          if( run_checked(s, [&]{ s->fm_angle_aprox(cosine, d); }, ev) ) continue;
          int c = cc.get(std::string("C07.") + (cosine ? "cos_angle_aprox." : "sin_angle_aprox.") + ev.kind);
          lv.hit(c, (static_cast<u64>(ci) << 56) | (0xfffull << 40) | (static_cast<u64>(cosine) << 36) | i, [=]{ Example x; x.entry = cosine ? "cos_angle_aprox" : "sin_angle_aprox"; x.cfg = s->name; x.inputs = {{"angle", to_s(d)}};
             x.expected = "returns normally without undefined behaviour"; x.got = ev.where; x.rcase = "angle"; x.rin = { to_s(cosine), to_s(d) }; return x; });
          }
        });
      rec.add_states(ds.size(), ds.size(), ds.size());
      }
    }
    // dense shift counts: every count of a range down to INT_MIN (thorough) for 16 representative x, checked per block
    {
    std::vector<i64> X16 { 0, 1, -1, 65536, -65536, FX_MAX, FX_LOWEST, FX_NAN, -FX_NAN, 0x5555555555555555ll, -0x5555555555555555ll, 1ll<<62, -(1ll<<62), (1ll<<47)+12345, 0x7fffffffffff0000ll, -3 };
    i64 r_lo = th ? static_cast<i64>(INT32_MIN) : -(1ll << 22);
    const i64 B = 1 << 16; i64 total = 63 - r_lo + 1; size_t nb = static_cast<size_t>((total + B - 1) / B);
    for( int left = 0; left < 2; ++left ) for( size_t xi = 0; xi < X16.size(); ++xi )
      {
      i64 x = X16[xi];
      parallel_blocks(nb, o.threads, [&](size_t blk, int) {
        i64 r0 = r_lo + static_cast<i64>(blk) * B; size_t cnt = static_cast<size_t>(std::min<i64>(B, 63 - r0 + 1));
        std::vector<i64> out(cnt); Event ev;
        if( run_checked(s, [&]{ s->fm_shift_range(left, x, static_cast<int>(r0), cnt, out.data()); }, ev) ) return;
        LocalViol lv(rec); ClsCache cc(rec);
        for( size_t k = 0; k < cnt; ++k )
          {
          int r = static_cast<int>(r0 + static_cast<i64>(k)); Event e2;
          if( run_checked(s, [&]{ s->fm_shift(left, x, r); }, e2) ) continue;
          int c = cc.get(std::string("C07.") + (left ? "operator<<" : "operator>>") + "_(fixed,int)." + e2.kind);
          lv.hit(c, (static_cast<u64>(ci) << 56) | (0xffeull << 40) | (static_cast<u64>(left) << 39) | (xi << 33) | (blk * B + k), [=]{ Example xm; xm.entry = left ? "operator<< (fixed,int)" : "operator>> (fixed,int)"; xm.cfg = s->name;
             xm.inputs = {{"x", to_s(x)}, {"r", to_s(r)}}; xm.expected = "returns normally without undefined behaviour"; xm.got = e2.where; xm.rcase = "entry"; xm.rin = { left ? "operator<< (fixed,int)" : "operator>> (fixed,int)", to_su(static_cast<u64>(x)), to_su(static_cast<u64>(static_cast<i64>(r))) }; return xm; });
          }
        });
      rec.add_states(static_cast<u64>(total), static_cast<u64>(total), static_cast<u64>(total));
      }
    }
    // every float bit pattern through the float -> fixed conversion (thorough), checked per block
    if( th && ci == 0 )
      {
      parallel_blocks(1 << 16, o.threads, [&](size_t blk, int) {
        std::vector<i64> out(1 << 16); Event ev; uint32_t st = static_cast<uint32_t>(blk << 16);
        if( run_checked(s, [&]{ s->fm_from_f32_range(FF_CTOR, st, out.size(), out.data()); }, ev) ) return;
        LocalViol lv(rec); int c = rec.cls("C07.fixed_t{v}_<float>." + ev.kind);
        lv.hit(c, (static_cast<u64>(ci) << 56) | (0xffdull << 40) | blk, [=]{ Example x; x.entry = "fixed_t{v} <float>"; x.cfg = s->name; x.inputs = {{"bits in block starting at", hex(st)}}; x.expected = "no undefined behaviour"; x.got = ev.where;
            x.rcase = "f32blk"; x.rin = { to_su(st) }; return x; });
        });
      rec.add_states(1ull << 32, 1ull << 32, 1ull << 32);
      }
    }
  // table index of every angle, through the probe(s)
  for( auto& pn : o.probes )
    {
    Probe* p = load_probe(o.shim_dir, pn);
    int c = rec.cls("C07.angle_aprox.table_index_out_of_bounds");
    for( int cosine = 0; cosine < 2; ++cosine )
      {
      parallel_blocks(1 << 16, o.threads, [&](size_t blk, int) {
        LocalViol lv(rec); std::vector<i64> out(1 << 16);
        int32_t st = static_cast<int32_t>(static_cast<uint32_t>(blk << 16));
        p->fm_angle_index_range(cosine, st, out.size(), out.data());
        for( size_t i = 0; i < out.size(); ++i ) if( out[i] < 0 || out[i] > 360 )
          {
          int32_t d = static_cast<int32_t>(static_cast<uint32_t>(st) + static_cast<uint32_t>(i)); i64 idx = out[i];
          lv.hit(c, (static_cast<u64>(cosine) << 52) | static_cast<u64>(static_cast<uint32_t>(d) ^ 0x80000000u), [=]{ Example x; x.entry = cosine ? "cos_angle_aprox" : "sin_angle_aprox"; x.cfg = p->name; x.shape = "index observed through the probe";
             x.inputs = {{"angle", to_s(d)}}; x.expected = "index in [0, 360] (361-entry table)"; x.got = "index " + to_s(idx); x.rcase = "index"; x.rin = { to_s(cosine), to_s(d) }; return x; });
          }
        });
      rec.add_states(1ull << 32, 1ull << 32, 1ull << 32);
      }
    }
  rec.count("entry_points", cat.size());
  rec.sample("ceil(max()) under " + san[0]->name + ": ub events before=" + to_su(san[0]->fm_ub_count()) + " result=" + to_s(san[0]->fm_un(U_CEIL, FX_MAX)) + " events after=" + to_su(san[0]->fm_ub_count()) + " last=" + san[0]->fm_ub_last());
  rec.sample("sin(-NaN) under " + san[0]->name + ": result=" + to_s(san[0]->fm_un(U_SIN, -FX_NAN)) + " last event=" + san[0]->fm_ub_last());
  }
void replay07(Options const& o, Shim* s, Recorder& rec)
  {
  rec.add_states(1,1,1);
  auto report = [&](std::string entry, Event const& ev) {
    int c = rec.cls("C07." + sanitize_cls(entry) + "." + ev.kind);
    rec.viol(c, 0, [&]{ Example x; x.entry = entry; x.cfg = o.rcfg; x.expected = "returns normally without undefined behaviour"; x.got = ev.where; x.rcase = o.rcase; x.rin = o.rin; return x; }); };
  if( o.rcase == "index" )
    {
    Probe* p = load_probe(o.shim_dir, o.rcfg);
    int cosine = static_cast<int>(parse_i64(o.rin.at(0))); int32_t d = static_cast<int32_t>(parse_i64(o.rin.at(1)));
    i64 idx = p->fm_angle_index(cosine, d);
    if( idx < 0 || idx > 360 ) { Event ev{ "table_index_out_of_bounds", "index " + to_s(idx) }; int c = rec.cls("C07.angle_aprox.table_index_out_of_bounds");
      rec.viol(c, 0, [&]{ Example x; x.entry = "angle_aprox"; x.cfg = o.rcfg; x.expected = "index in [0,360]"; x.got = ev.where; x.rcase = o.rcase; x.rin = o.rin; return x; }); }
    return;
    }
  Event ev;
  if( o.rcase == "angle" ) { int cosine = static_cast<int>(parse_i64(o.rin.at(0))); int32_t d = static_cast<int32_t>(parse_i64(o.rin.at(1)));
    if( !run_checked(s, [&]{ s->fm_angle_aprox(cosine, d); }, ev) ) { report(cosine ? "cos_angle_aprox" : "sin_angle_aprox", ev); }
    return; }
  if( o.rcase == "f32blk" ) { uint32_t st = static_cast<uint32_t>(parse_u64(o.rin.at(0))); std::vector<i64> out(1 << 16);
    if( !run_checked(s, [&]{ s->fm_from_f32_range(FF_CTOR, st, out.size(), out.data()); }, ev) ) { report("fixed_t{v} <float>", ev); }
    return; }
  std::vector<Entry> cat = build_catalog(0, true);
  for( auto& e : cat ) if( e.name == o.rin.at(0) )
    { u64 a = parse_u64(o.rin.at(1)), b = parse_u64(o.rin.at(2)); if( !run_checked(s, [&]{ e.call(s, a, b); }, ev) ) report(e.name, ev); return; }
  std::fprintf(stderr, "INTERNAL: unknown entry %s\n", o.rin.at(0).c_str()); std::exit(2);
  }

//====================================================================== C08
inline bool same_result(Entry const& e, u64 x, u64 y)
  {
  if( x == y ) return true;
  if( e.dbl ) { double a, b; std::memcpy(&a, &x, 8); std::memcpy(&b, &y, 8); return a != a && b != b; }
  return false;
  }
const u64 TRAPPED = 0xdeadbeefdeadbeefull;

void explore08(Options const& o, std::vector<Shim*> const& shims, std::vector<Shim*> const&, Recorder& rec)
  {
  bool th = o.tier == "thorough";
  std::vector<Entry> cat = build_catalog(th ? 1 : 0, false);
  u64 total_states = 0; for( auto& e : cat ) total_states += static_cast<u64>(e.A.size()) * std::max<size_t>(1, e.B.size());
  int n_ab = 0, n_std = 0; for( Shim* s : shims ) { if( s->sqrt_algo == 1 ) ++n_ab; else if( s->sqrt_algo == 2 ) ++n_std; }
  rec.note("alphabet", "(1) " + std::to_string(cat.size()) + " entry points x their argument spaces (" + std::to_string(total_states) + " inputs) executed in each of " + std::to_string(shims.size())
           + " configurations and compared element-wise with the first configuration that runs the same square-root algorithm (probed: " + std::to_string(n_ab) + " abacus, " + std::to_string(n_std)
           + " std); dense windows for the transcendental functions; (3) |sqrt_abacus - sqrt_std_math| <= 1 on a dense prefix and S up to 2^47; (2) the constant-evaluation lane is run by the driver (see coverage.consteval)");
  // reference shim per group
  auto ref_for = [&](Shim* s, bool dep) -> Shim* { for( Shim* r : shims ) if( !dep || r->sqrt_algo == s->sqrt_algo ) return r; return s; };
  for( size_t ei = 0; ei < cat.size(); ++ei )
    {
    Entry const& e = cat[ei];
    int c = rec.cls("C08.config_dependent_result." + sanitize_cls(e.name));
    size_t nb = std::max<size_t>(1, e.B.size());
    const size_t CH = 64; size_t nblk = (e.A.size() + CH - 1) / CH;
    parallel_blocks(nblk, o.threads, [&](size_t blk, int) {
      LocalViol lv(rec);
      std::vector<u64> res(shims.size());
      for( size_t ia = blk * CH; ia < std::min(e.A.size(), (blk + 1) * CH); ++ia ) for( size_t ib = 0; ib < nb; ++ib )
        {
        u64 a = e.A[ia], b = e.B.empty() ? 0 : e.B[ib];
        for( size_t ci = 0; ci < shims.size(); ++ci ) { Shim* s = shims[ci]; u64 r = TRAPPED; int sig = guarded([&]{ r = e.call(s, a, b); }); res[ci] = sig ? TRAPPED : r; }
        for( size_t ci = 1; ci < shims.size(); ++ci )
          {
          Shim* s = shims[ci]; Shim* rf = ref_for(s, e.sqrt_dep); if( rf == s ) continue;
          size_t ri = 0; while( shims[ri] != rf ) ++ri;
          if( same_result(e, res[ci], res[ri]) ) continue;
          u64 got = res[ci], exp = res[ri]; Entry const* ep = &e;
          lv.hit(c, (static_cast<u64>(ei) << 48) | ((ia * nb + ib) << 6) | ci, [=]{ Example x; x.entry = ep->name; x.cfg = s->name; x.note = rf->name; x.inputs = {{ep->an, ep->afmt(a)}}; if( !ep->B.empty() ) x.inputs.push_back({ep->bn, ep->bfmt(b)});
             x.expected = (exp == TRAPPED ? std::string("trap") : ep->dbl ? hex(exp) : to_s(static_cast<i64>(exp))) + " (result in " + rf->name + ")"; x.got = got == TRAPPED ? std::string("trap") : ep->dbl ? hex(got) : to_s(static_cast<i64>(got));
             x.rcase = "entry"; x.rin = { ep->name, to_su(a), to_su(b), rf->name }; return x; });
          }
        }
      });
    u64 n = static_cast<u64>(e.A.size()) * nb; rec.add_states(n * shims.size(), n * shims.size(), n * (shims.size() - 1));
    }
  // dense windows for the series functions (every raw value): results of all configurations compared block-wise
  {
  struct Win { int op; i64 lo, hi; bool dep; };
  i64 D = th ? (1ll << 22) : (1ll << 19);
  std::vector<Win> wins { {U_SIN,-D,D,false}, {U_COS,-D,D,false}, {U_TAN,-D,D,false}, {U_ATAN,-D,D,false}, {U_ASIN,-65600,65600,true}, {U_ACOS,-65600,65600,true}, {U_SQRT,0,D,true},
                          {U_SQRT_ABACUS,0,D,false}, {U_SQRT_STD,0,D,false}, {U_FLOOR,-D,D,false}, {U_CEIL,-D,D,false}, {U_SQRT_APROX,0,D,false}, {U_ATAN_INDEX_APROX,-D,D,false},
                          {U_SIN_ANGLE_FX,-D,D,false}, {U_TAN_ANGLE_FX,-D,D,false} };
  static const char* UN[U_COUNT] = { "operator- (unary)", "abs", "isnan", "floor", "ceil", "sin", "cos", "tan", "atan", "asin", "acos", "sqrt", "detail::sqrt_abacus", "detail::sqrt_std_math",
                                      "sqrt_aprox", "atan_index_aprox", "atan_aprox", "sin_angle(fixed_t)", "cos_angle(fixed_t)", "tan_angle(fixed_t)",
                                      "x += x (same object)", "x -= x (same object)", "x *= x (same object)", "x /= x (same object)" };
  for( auto& w : wins )
    {
    int c = rec.cls("C08.config_dependent_result." + sanitize_cls(UN[w.op]));
    const i64 B = 1 << 14; u64 total = static_cast<u64>(w.hi - w.lo) + 1; size_t nb = static_cast<size_t>((total + B - 1) / B);
    parallel_blocks(nb, o.threads, [&](size_t blk, int) {
      LocalViol lv(rec);
      i64 x0 = w.lo + static_cast<i64>(blk) * B; size_t n = static_cast<size_t>(std::min<u64>(B, total - blk * B));
      std::vector<std::vector<i64>> out(shims.size(), std::vector<i64>(n));
      for( size_t ci = 0; ci < shims.size(); ++ci ) shims[ci]->fm_un_range(w.op, x0, n, out[ci].data());
      for( size_t ci = 1; ci < shims.size(); ++ci )
        {
        Shim* s = shims[ci]; Shim* rf = ref_for(s, w.dep); if( rf == s ) continue; size_t ri = 0; while( shims[ri] != rf ) ++ri;
        for( size_t i = 0; i < n; ++i ) if( out[ci][i] != out[ri][i] )
          { i64 x = x0 + static_cast<i64>(i), g = out[ci][i], ex = out[ri][i]; int op = w.op;
            lv.hit(c, (0xffffull << 48) | (static_cast<u64>(op) << 40) | ((blk * B + i) << 6) | ci, [=]{ Example e; e.entry = UN[op]; e.cfg = s->name; e.note = rf->name; e.inputs = {{"x", to_s(x)}};
              e.expected = to_s(ex) + " (result in " + rf->name + ")"; e.got = to_s(g); e.rcase = "entry"; e.rin = { UN[op], to_su(static_cast<u64>(x)), "0", rf->name }; return e; }); }
        }
      });
    rec.add_states(total * shims.size(), total * shims.size(), total * (shims.size() - 1));
    }
  }
  // (1b) the same entry point with compile-time-constant arguments (visible to the optimiser, __builtin_constant_p, constant
  //      folding) must return what it returns for an opaque argument in the SAME configuration
  {
  static const char* UN2[U_COUNT] = { "operator- (unary)", "abs", "isnan", "floor", "ceil", "sin", "cos", "tan", "atan", "asin", "acos", "sqrt", "detail::sqrt_abacus", "detail::sqrt_std_math",
                                      "sqrt_aprox", "atan_index_aprox", "atan_aprox", "sin_angle(fixed_t)", "cos_angle(fixed_t)", "tan_angle(fixed_t)",
                                      "x += x (same object)", "x -= x (same object)", "x *= x (same object)", "x /= x (same object)" };
  u64 n = 0;
  for( size_t ci = 0; ci < shims.size(); ++ci )
    {
    Shim* s = shims[ci]; LocalViol lv(rec);
    int n1 = s->fm_constarg_count(0), n2 = s->fm_constarg_count(1);
    for( int op = 0; op < U_COUNT; ++op ) for( int ki = 0; ki < n1; ++ki )
      {
      i64 k = s->fm_constarg_value(0, ki); i64 a = 0, b = 0; int sg = guarded([&]{ a = s->fm_un_constarg(op, ki); b = s->fm_un(op, k); }); ++n;
      if( sg || a != b ) lv.hit(rec.cls(std::string("C08.constant_argument_result_differs.") + sanitize_cls(UN2[op])), (static_cast<u64>(ci) << 56) | (static_cast<u64>(op) << 16) | static_cast<u64>(ki), [=]{ Example e; e.entry = UN2[op]; e.cfg = s->name; e.shape = "argument is a compile-time constant";
          e.inputs = {{"x", to_s(k)}}; e.expected = to_s(b) + " (same call with an opaque argument)"; e.got = sg ? "signal" : to_s(a); e.rcase = "constarg"; e.rin = { "0", to_s(op), to_s(ki), "0" }; return e; });
      }
    for( int op = 0; op < B_COUNT; ++op ) for( int ki = 0; ki < n2; ++ki ) for( int kj = 0; kj < n2; ++kj )
      {
      i64 k1 = s->fm_constarg_value(1, ki), k2 = s->fm_constarg_value(1, kj); i64 a = 0, b = 0; int sg = guarded([&]{ a = s->fm_bin_constarg(op, ki, kj); b = s->fm_bin(op, k1, k2); }); ++n;
      if( sg || a != b ) lv.hit(rec.cls("C08.constant_argument_result_differs.binary_op_" + std::to_string(op)), (static_cast<u64>(ci) << 56) | (1ull << 40) | (static_cast<u64>(op) << 16) | static_cast<u64>(ki * 16 + kj), [=]{ Example e; e.entry = "binary op #" + std::to_string(op); e.cfg = s->name; e.shape = "both arguments are compile-time constants";
          e.inputs = {{"a", to_s(k1)}, {"b", to_s(k2)}}; e.expected = to_s(b) + " (same call with opaque arguments)"; e.got = sg ? "signal" : to_s(a); e.rcase = "constarg"; e.rin = { "1", to_s(op), to_s(ki), to_s(kj) }; return e; });
      }
    }
  for( size_t ci = 0; ci < shims.size(); ++ci )
    {
    Shim* s = shims[ci]; LocalViol lv(rec);
    for( int cosine = 0; cosine < 2; ++cosine ) for( int ki = 0; ki < s->fm_angle_constarg_count(); ++ki )
      {
      int32_t d = s->fm_angle_constarg_value(ki); i64 a = 0, b = 0; int sg = guarded([&]{ a = s->fm_angle_constarg(cosine, ki); b = s->fm_angle_aprox(cosine, d); }); ++n;
      if( sg || a != b ) lv.hit(rec.cls(std::string("C08.constant_argument_result_differs.") + (cosine ? "cos_angle_aprox" : "sin_angle_aprox")), (static_cast<u64>(ci) << 56) | (2ull << 40) | static_cast<u64>(cosine * 64 + ki), [=]{ Example e; e.entry = cosine ? "cos_angle_aprox" : "sin_angle_aprox"; e.cfg = s->name; e.shape = "argument is a literal";
          e.inputs = {{"angle", to_s(d)}}; e.expected = to_s(b) + " (same call with an opaque argument)"; e.got = sg ? "signal" : to_s(a); e.rcase = "constarg"; e.rin = { "2", to_s(cosine), to_s(ki), "0" }; return e; });
      }
    }
  rec.add_states(n, 2 * n, n); rec.count("constant_argument_states", n);
  }
  // (1c) comparisons of a fresh result against constants in the same inlined scope as the call must agree with the returned value
  {
  std::vector<i64> X = S_set(th ? 6 : 5, 2, true);
  std::vector<i64> P = S_set(2, 1, true);
  u64 n = 0;
  for( size_t ci = 0; ci < shims.size(); ++ci )
    {
    Shim* s = shims[ci];
    int c_m = rec.cls("C08.in_scope_comparison_of_result_wrong");
    for( int op = 0; op < U_COUNT; ++op )
      {
      if( op == U_SQRT_STD || op == U_SQRT_ABACUS ) continue;
      const size_t B = 2048; size_t nb = (X.size() + B - 1) / B;
      parallel_blocks(nb, o.threads, [&](size_t blk, int) {
        LocalViol lv(rec);
        for( size_t i = blk * B; i < std::min(X.size(), (blk + 1) * B); ++i )
          { i64 x = X[i]; i64 r = 0; u64 got = 0; int sg = guarded([&]{ r = s->fm_un(op, x); got = s->fm_un_cmpmask(op, x); }); u64 e = expected_cmpmask(s, r);
            if( sg || got != e ) lv.hit(c_m, (static_cast<u64>(ci) << 56) | (static_cast<u64>(op) << 40) | i, [=]{ Example ex; ex.entry = "unary op #" + std::to_string(op); ex.cfg = s->name; ex.shape = "comparisons in the scope of the call"; ex.inputs = {{"x", to_s(x)}};
                ex.expected = "mask " + hex(e) + " (from the returned value " + to_s(r) + ")"; ex.got = "mask " + hex(got); ex.rcase = "mask"; ex.rin = { "0", to_s(op), to_s(x), "0" }; return ex; }); }
        });
      n += X.size();
      }
    for( int op = 0; op < B_COUNT; ++op )
      {
      parallel_blocks(P.size(), o.threads, [&](size_t ia, int) {
        LocalViol lv(rec);
        for( size_t ib = 0; ib < P.size(); ++ib )
          { i64 a = P[ia], b = P[ib]; i64 r = 0; u64 got = 0; int sg = guarded([&]{ r = s->fm_bin(op, a, b); got = s->fm_bin_cmpmask(op, a, b); }); u64 e = expected_cmpmask(s, r);
            if( sg || got != e ) lv.hit(c_m, (static_cast<u64>(ci) << 56) | (1ull << 50) | (static_cast<u64>(op) << 40) | (ia * P.size() + ib), [=]{ Example ex; ex.entry = "binary op #" + std::to_string(op); ex.cfg = s->name; ex.shape = "comparisons in the scope of the call";
                ex.inputs = {{"a", to_s(a)}, {"b", to_s(b)}}; ex.expected = "mask " + hex(e) + " (from the returned value " + to_s(r) + ")"; ex.got = "mask " + hex(got); ex.rcase = "mask"; ex.rin = { "1", to_s(op), to_s(a), to_s(b) }; return ex; }); }
        });
      n += static_cast<u64>(P.size()) * P.size();
      }
    }
  rec.add_states(n, 2 * n, n); rec.count("in_scope_comparison_states", n);
  }
  // (1d) call-history independence: the value for B right after a call with A equals the value for B in any other context
  {
  std::vector<i64> H = S_set(2, 1, true);
  for( i64 d : { 65536ll + 5, 65446ll, 131071ll, 1ll << 16, (1ll << 16) - 90, (1ll << 32) + 7, (1ll << 32) - 1 } ) { H.push_back(d); H.push_back(-d); }
  std::sort(H.begin(), H.end()); H.erase(std::unique(H.begin(), H.end()), H.end());
  u64 n = 0;
  for( size_t ci = 0; ci < shims.size(); ++ci )
    {
    if( !th && ci % 3 != 0 ) continue;
    Shim* s = shims[ci]; int c_h = rec.cls("C08.result_depends_on_previous_call");
    parallel_blocks(U_COUNT, o.threads, [&](size_t opi, int) {
      int op = static_cast<int>(opi); LocalViol lv(rec);
      std::vector<i64> base(H.size());
      for( size_t i = 0; i < H.size(); ++i ) { int sg = guarded([&]{ base[i] = s->fm_un(op, H[i]); }); if( sg ) base[i] = static_cast<i64>(TRAPPED); }
      for( size_t ia = 0; ia < H.size(); ++ia ) for( size_t ib = 0; ib < H.size(); ++ib )
        {
        i64 g = 0; int sg = guarded([&]{ s->fm_un(op, H[ia]); g = s->fm_un(op, H[ib]); }); if( sg ) g = static_cast<i64>(TRAPPED);
        if( g != base[ib] ) { i64 A = H[ia], B = H[ib], e = base[ib]; lv.hit(c_h, (static_cast<u64>(ci) << 56) | (static_cast<u64>(op) << 40) | (ia * H.size() + ib), [=]{ Example ex; ex.entry = "unary entry point #" + std::to_string(op) + ": f(A); f(B)"; ex.cfg = s->name;
            ex.inputs = {{"A", to_s(A)}, {"B", to_s(B)}}; ex.expected = to_s(e) + " (f(B) in the ascending sweep)"; ex.got = to_s(g); ex.rcase = "hist"; ex.rin = { to_s(op), to_s(A), to_s(B), "0" }; return ex; }); }
        }
      // aliased second arguments (equal to the first modulo 2^k, or above bit k): a memo keyed on part of the argument
      std::vector<i64> const& SD = history_seeds();
      for( size_t ia = 0; ia < SD.size(); ++ia )
        {
        std::vector<i64> Bv = alias_args(SD[ia], FX_LOWEST, FX_MAX);
        for( size_t ib = 0; ib < Bv.size(); ++ib )
          {
          i64 A = SD[ia], B = Bv[ib], g = 0, e = 0;
          int sg = guarded([&]{ s->fm_un(op, A); g = s->fm_un(op, B); s->fm_un(op, ~B == FX_NAN ? 0 : ~B); e = s->fm_un(op, B); }); if( sg ) { g = static_cast<i64>(TRAPPED); e = g; }
          if( g != e ) lv.hit(c_h, (static_cast<u64>(ci) << 56) | (static_cast<u64>(op) << 40) | (1ull << 39) | (ia << 12) | ib, [=]{ Example ex; ex.entry = "unary entry point #" + std::to_string(op) + ": f(A); f(B)"; ex.cfg = s->name; ex.shape = "B aliases A (equal modulo 2^k or above bit k)";
              ex.inputs = {{"A", to_s(A)}, {"B", to_s(B)}}; ex.expected = to_s(e) + " (f(B) right after f(~B))"; ex.got = to_s(g); ex.rcase = "hist"; ex.rin = { to_s(op), to_s(A), to_s(B), "0" }; return ex; });
          }
        rec.add_states(Bv.size(), 4 * Bv.size(), Bv.size());
        }
      });
    n += static_cast<u64>(U_COUNT) * H.size() * H.size();
    }
  rec.add_states(n, 2 * n, n); rec.count("two_call_history_states", n);
  }
  // (3) the two square-root algorithms never differ by more than one ulp
  {
  int c = rec.cls("C08.sqrt_algorithms_differ_by_more_than_1ulp");
  i64 hi = th ? (1ll << 30) : (1ll << 24);
  std::vector<i64> S; for( i64 x : (th ? S_set(10,8) : S_set(8,8)) ) if( x >= 0 && x < (1ll << 47) ) S.push_back(x);
  for( size_t ci = 0; ci < shims.size(); ++ci )
    {
    if( ci > 1 && !th ) break;            // both algorithms are called directly: their results do not depend on the dispatch; two configurations in quick (cross-configuration equality is sub-check 1)
    Shim* s = shims[ci];
    const i64 B = 1 << 15; size_t nb = static_cast<size_t>((hi + B - 1) / B);
    auto cmp = [&](i64 x, i64 a, i64 d, u64 ord, LocalViol& lv) {
      i64 df = a > d ? a - d : d - a;
      if( df > 1 ) lv.hit(c, ord, [=]{ Example e; e.entry = "detail::sqrt_abacus vs detail::sqrt_std_math"; e.cfg = s->name; e.inputs = {{"x", to_s(x)}}; e.expected = "differ by at most 1 ulp"; e.got = to_s(a) + " vs " + to_s(d); e.rcase = "sqrt2"; e.rin = { to_s(x) }; return e; }); };
    parallel_blocks(nb, o.threads, [&](size_t blk, int) {
      LocalViol lv(rec); i64 x0 = static_cast<i64>(blk) * B; size_t n = static_cast<size_t>(std::min<i64>(B, hi - x0));
      std::vector<i64> a(n), d(n); s->fm_un_range(U_SQRT_ABACUS, x0, n, a.data()); s->fm_un_range(U_SQRT_STD, x0, n, d.data());
      for( size_t i = 0; i < n; ++i ) cmp(x0 + static_cast<i64>(i), a[i], d[i], (static_cast<u64>(ci) << 56) | static_cast<u64>(x0 + static_cast<i64>(i)), lv);
      });
    LocalViol lv(rec);
    for( size_t i = 0; i < S.size(); ++i ) cmp(S[i], s->fm_un(U_SQRT_ABACUS, S[i]), s->fm_un(U_SQRT_STD, S[i]), (static_cast<u64>(ci) << 56) | (1ull << 55) | i, lv);
    rec.add_states(static_cast<u64>(hi) + S.size(), 2 * (static_cast<u64>(hi) + S.size()), static_cast<u64>(hi) + S.size());
    }
  }
  rec.count("entry_points", cat.size());
  rec.count("configs.abacus", static_cast<u64>(n_ab)); rec.count("configs.std", static_cast<u64>(n_std));
  { std::string sm = "x + max() with x = raw 5 in every configuration:"; for( Shim* s : shims ) { fm_shape_info inf; (void)inf; sm += " " + s->name + "=" + to_s(s->fm_bin(B_ADD, 5, FX_MAX)); } rec.sample(sm); }
  { std::string sm = "sqrt(raw 131072) :"; for( Shim* s : shims ) sm += " " + s->name + "=" + to_s(s->fm_un(U_SQRT, 131072)) + (s->sqrt_algo == 1 ? "(abacus)" : "(std)"); rec.sample(sm); }
  }
void replay08(Options const& o, Shim* s, Recorder& rec)
  {
  rec.add_states(1,1,1);
  if( o.rcase == "sqrt2" )
    { i64 x = parse_i64(o.rin.at(0)); i64 a = s->fm_un(U_SQRT_ABACUS, x), d = s->fm_un(U_SQRT_STD, x); i64 df = a > d ? a - d : d - a;
      if( df > 1 ) rec.viol(rec.cls("C08.sqrt_algorithms_differ_by_more_than_1ulp"), 0, [&]{ Example e; e.entry = "sqrt_abacus vs sqrt_std_math"; e.cfg = o.rcfg; e.inputs = {{"x", to_s(x)}}; e.expected = "differ by at most 1"; e.got = to_s(a) + " vs " + to_s(d); e.rcase = o.rcase; e.rin = o.rin; return e; });
      return; }
  if( o.rcase == "constarg" )
    { int bin = static_cast<int>(parse_i64(o.rin.at(0))), op = static_cast<int>(parse_i64(o.rin.at(1))), ki = static_cast<int>(parse_i64(o.rin.at(2))), kj = static_cast<int>(parse_i64(o.rin.at(3)));
      i64 a = 0, b = 0; int sg = guarded([&]{ if( bin == 2 ) { a = s->fm_angle_constarg(op, ki); b = s->fm_angle_aprox(op, s->fm_angle_constarg_value(ki)); } else if( bin ) { a = s->fm_bin_constarg(op, ki, kj); b = s->fm_bin(op, s->fm_constarg_value(1, ki), s->fm_constarg_value(1, kj)); } else { a = s->fm_un_constarg(op, ki); b = s->fm_un(op, s->fm_constarg_value(0, ki)); } });
      if( sg || a != b ) rec.viol(rec.cls("C08.constant_argument_result_differs.replay"), 0, [&]{ Example e; e.entry = "constant-argument instantiation"; e.cfg = o.rcfg; e.expected = to_s(b); e.got = to_s(a); e.rcase = o.rcase; e.rin = o.rin; return e; });
      return; }
  if( o.rcase == "hist" )
    { int op = static_cast<int>(parse_i64(o.rin.at(0))); i64 A = parse_i64(o.rin.at(1)), B = parse_i64(o.rin.at(2));
      s->fm_un(op, ~B == FX_NAN ? 0 : ~B); i64 fresh = s->fm_un(op, B); s->fm_un(op, B); i64 again = s->fm_un(op, B); s->fm_un(op, A); i64 g = s->fm_un(op, B);
      if( g != fresh || again != fresh ) rec.viol(rec.cls("C08.result_depends_on_previous_call"), 0, [&]{ Example ex; ex.entry = "f(A); f(B)"; ex.cfg = o.rcfg; ex.expected = to_s(fresh); ex.got = to_s(g); ex.rcase = o.rcase; ex.rin = o.rin; return ex; });
      return; }
  if( o.rcase == "mask" )
    { int bin = static_cast<int>(parse_i64(o.rin.at(0))), op = static_cast<int>(parse_i64(o.rin.at(1))); i64 a = parse_i64(o.rin.at(2)), b = parse_i64(o.rin.at(3));
      i64 r = 0; u64 got = 0; int sg = guarded([&]{ if( bin ) { r = s->fm_bin(op, a, b); got = s->fm_bin_cmpmask(op, a, b); } else { r = s->fm_un(op, a); got = s->fm_un_cmpmask(op, a); } });
      u64 e = expected_cmpmask(s, r);
      if( sg || got != e ) rec.viol(rec.cls("C08.in_scope_comparison_of_result_wrong"), 0, [&]{ Example ex; ex.entry = "in-scope comparisons"; ex.cfg = o.rcfg; ex.expected = hex(e); ex.got = hex(got); ex.rcase = o.rcase; ex.rin = o.rin; return ex; });
      return; }
  Shim* rf = load_shim(o.shim_dir, o.rin.at(3));
  std::vector<Entry> cat = build_catalog(0, false);
  for( auto& e : cat ) if( e.name == o.rin.at(0) )
    {
    u64 a = parse_u64(o.rin.at(1)), b = parse_u64(o.rin.at(2)); u64 r1 = TRAPPED, r2 = TRAPPED;
    int s1 = guarded([&]{ r1 = e.call(s, a, b); }), s2 = guarded([&]{ r2 = e.call(rf, a, b); }); if( s1 ) r1 = TRAPPED; if( s2 ) r2 = TRAPPED;
    if( !same_result(e, r1, r2) ) rec.viol(rec.cls("C08.config_dependent_result." + sanitize_cls(e.name)), 0, [&]{ Example x; x.entry = e.name; x.cfg = o.rcfg; x.note = rf->name; x.expected = hex(r2) + " in " + rf->name; x.got = hex(r1); x.rcase = o.rcase; x.rin = o.rin; return x; });
    return;
    }
  std::fprintf(stderr, "INTERNAL: unknown entry %s\n", o.rin.at(0).c_str()); std::exit(2);
  }
}
REGISTER_PROPERTY(C07, explore07, replay07)
REGISTER_PROPERTY(C08, explore08, replay08)
