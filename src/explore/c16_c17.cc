// C16 mixed-type operators equal the promoted computation; C17 algebraic laws over operation histories (BFS).
#include "common.h"
#include "types.h"

namespace {
const int BINOP[4] = { B_ADD, B_SUB, B_MUL, B_DIV };
const char* OPC[4] = { "+", "-", "*", "/" };
const char* ORDS[3] = { "a op t", "t op a", "a op= t" };

inline double bits_d(u64 b) { double d; std::memcpy(&d, &b, 8); return d; }
inline u64 d_bits(double d) { u64 b; std::memcpy(&b, &d, 8); return b; }
inline float bits_f(u64 b) { uint32_t x = static_cast<uint32_t>(b); float f; std::memcpy(&f, &x, 4); return f; }
inline bool dbl_same(u64 a, u64 b) { if( a == b ) return true; double x = bits_d(a), y = bits_d(b); return x != x && y != y; }
// volatile operands keep the explorer's compiler from folding / re-associating: plain IEEE double operations at run time
inline double ieee(int op, double l, double r)
  {
  volatile double a = l, b = r; volatile double res;
  switch(op) { case M_ADD: res = a + b; break; case M_SUB: res = a - b; break; case M_MUL: res = a * b; break; default: res = a / b; break; }
  return res;
  }

//====================================================================== C16
struct C16
  {
  Recorder& rec; int c_promoted, c_exact, c_double, c_assign, c_trap;
  explicit C16(Recorder& r) : rec(r), c_promoted(r.cls("C16.differs_from_promoted_computation")), c_exact(r.cls("C16.integer_scalar_not_exact")),
     c_double(r.cls("C16.double_operand_not_ieee")), c_assign(r.cls("C16.compound_assignment_differs")), c_trap(r.cls("C16.trap")) {}
  static bool converts(int t, u64 bits)
    {
    if( is_int_type(t) ) { i128 n = int_value(t, bits); return n >= -2147483647ll && n <= 2147483647ll; }
    float f = bits_f(bits); return f == f && std::fabs(static_cast<double>(f)) < 2147483647.0;
    }
  static std::string tval(int t, u64 bits) { return is_int_type(t) ? int_s(t, bits) : t == T_F32 ? dbl_s(bits_f(bits)) + " (float bits " + hex(bits) + ")" : dbl_s(bits_d(bits)) + " (double bits " + hex(bits) + ")"; }
  // exact semantics of fixed*integer / fixed/integer; returns false when undefined for the oracle (division by zero handled: NaN)
  static bool exact_scalar(int op, i64 a, i128 n, i64 got)
    {
    if( op == M_MUL ) { i128 p = static_cast<i128>(a) * n; return (p >= FX_LOWEST && p <= FX_MAX) ? got == static_cast<i64>(p) : fx_isnan(got); }
    if( n == 0 ) return fx_isnan(got);
    return got == static_cast<i64>(static_cast<i128>(a) / n);
    }
  };

std::vector<u64> float_values(bool th)
  {
  std::vector<u64> v;
  int w = th ? 3 : 2;
  for( u64 sg = 0; sg < 2; ++sg ) for( u64 ex = 127 - 20; ex <= 127 + 31; ++ex )
    for( u64 hi = 0; hi < (1ull << w); ++hi ) for( u64 lo = 0; lo < (1ull << w); ++lo ) for( u64 fill : { 0ull, (1ull << (23 - 2*w)) - 1, 0x55555ull & ((1ull << (23 - 2*w)) - 1) } )
      v.push_back((sg << 31) | (ex << 23) | (hi << (23 - w)) | (fill << w) | lo);
  for( u64 s : { 0ull, 0x80000000ull, 1ull, 0x80000001ull, 0x007fffffull, 0x00800000ull, 0x7f800000ull, 0xff800000ull, 0x7fc00000ull, 0x4f000000ull, 0xcf000000ull, 0x4effffffull, 0xceffffffull } ) v.push_back(s);
  std::sort(v.begin(), v.end()); v.erase(std::unique(v.begin(), v.end()), v.end());
  return v;
  }
std::vector<u64> double_values(bool th)
  {
  std::vector<u64> v;
  int w = th ? 3 : 2;
  for( u64 sg = 0; sg < 2; ++sg ) for( u64 ex : { 0ull, 1ull, 1023ull - 60, 1023ull - 20, 1023ull - 17, 1023ull - 16, 1023ull - 1, 1023ull, 1023ull + 1, 1023ull + 15, 1023ull + 16, 1023ull + 30, 1023ull + 31, 1023ull + 46, 1023ull + 47, 1023ull + 52, 1023ull + 62, 1023ull + 63, 1023ull + 64, 2046ull, 2047ull } )
    for( u64 hi = 0; hi < (1ull << w); ++hi ) for( u64 lo = 0; lo < (1ull << w); ++lo ) for( u64 fill : { 0ull, (1ull << (52 - 2*w)) - 1 } )
      v.push_back((sg << 63) | (ex << 52) | (hi << (52 - w)) | (fill << w) | lo);
  // long significands (no structure: mantissas of pi, sqrt 2, the golden ratio, alternating bits) at every third exponent in 2^-40 .. 2^40:
  // results that need a rounding decision in the last place (double rounding through a wider format shows only there)
  for( u64 sg = 0; sg < 2; ++sg ) for( u64 ex = 1023 - 40; ex <= 1023 + 40; ex += 3 )
    for( u64 m : { 0x921fb54442d18ull, 0x6a09e667f3bcdull, 0x9e3779b97f4a8ull, 0x5555555555555ull, 0xfffffffffffffull, 0x3333333333333ull, 0x0000000000001ull } )
      v.push_back((sg << 63) | (ex << 52) | m);
  std::sort(v.begin(), v.end()); v.erase(std::unique(v.begin(), v.end()), v.end());
  return v;
  }

void explore16(Options const& o, std::vector<Shim*> const& shims, std::vector<Shim*> const&, Recorder& rec)
  {
  bool th = o.tier == "thorough";
  std::vector<i64> Sa = merge_sets(th ? S_set(4,2) : S_set(3,1), D_set(th ? 1 : 0));
  std::vector<std::vector<u64>> tv(T_CODES);
  for( int t : INT_TYPES ) tv[t] = int_type_values(t, th ? 5 : 3, 1, th ? 32 : 4, th);
  tv[T_F32] = float_values(th); tv[T_F64] = double_values(th);
  { std::string d = "a in S' u D (digit-pattern words), |S' u D|=" + std::to_string(Sa.size()) + "; operand values per type:"; for( int t : ALL_TYPES ) d += std::string(" ") + TN[t] + "=" + std::to_string(tv[t].size());
    rec.note("alphabet", d + "; x 4 operators x {a op t, t op a, a op= t}"); }
  C16 c(rec);
  std::vector<i64> MULT_K;
  for( int e = 0; e <= 44; ++e ) for( i64 k : std::vector<i64>{ (1ll << e) - 1, 1ll << e, (1ll << e) + 1, 3ll << e, (7ll << e) - 1 } ) { if( k > 0 ) { MULT_K.push_back(k); MULT_K.push_back(-k); } }
  std::sort(MULT_K.begin(), MULT_K.end()); MULT_K.erase(std::unique(MULT_K.begin(), MULT_K.end()), MULT_K.end());
  for( size_t ci = 0; ci < shims.size(); ++ci )
    {
    Shim* s = shims[ci];
    u64 ob = static_cast<u64>(ci) << 56;
    for( int t : ALL_TYPES ) for( int op = 0; op < 4; ++op )
      {
      std::vector<u64> const& ts = tv[t];
      std::mutex m; u64 n_prom = 0, n_exact = 0, n_dbl = 0, n_asg = 0, n_skipped = 0;
      parallel_blocks(ts.size(), o.threads, [&](size_t it, int) {
        LocalViol lv(rec); u64 l_prom = 0, l_exact = 0, l_dbl = 0, l_asg = 0, l_skip = 0;
        u64 tb = ts[it];
        // besides S' u D: exact multiples k*n of an integral operand (k with S-shaped and all-ones significands), +-1: where a quotient
        // computed through a reciprocal or a rounded product is one unit short although the division is exact
        std::vector<i64> AA = Sa;
        if( is_int_type(t) && int_value(t, tb) != 0 )
          { i128 nn = int_value(t, tb); for( i64 k : MULT_K ) for( int d = -1; d <= 1; ++d ) { i128 a = static_cast<i128>(k) * nn + d; if( a > -(static_cast<i128>(1) << 52) && a < (static_cast<i128>(1) << 52) ) AA.push_back(static_cast<i64>(a)); } }
        size_t N = AA.size();
        std::vector<u64> r_ft(N), r_tf(N), r_as(N);
        std::vector<i64> e_ft(N), e_tf(N), convs;
        int sig = guarded([&]{
          s->fm_mixed_col(op, t, O_FIX_T, AA.data(), N, tb, r_ft.data());
          s->fm_mixed_col(op, t, O_T_FIX, AA.data(), N, tb, r_tf.data());
          if( t != T_F64 ) s->fm_mixed_col(op, t, O_ASSIGN, AA.data(), N, tb, r_as.data());
          });
        u64 obase = ob | (static_cast<u64>(t) << 52) | (static_cast<u64>(op) << 48) | (static_cast<u64>(it) << 16);
        auto mk = [=](int ord, i64 a, std::string e, std::string g) { return ex1(s, std::string("operator ") + OPC[op] + " (" + ORDS[ord] + ")", TN[t], {{"a",to_s(a)},{"t",C16::tval(t, tb)}}, e, g, "mix", {to_s(t), to_s(op), to_s(ord), to_s(a), to_su(tb)}); };
        if( sig )
          {   // locate the trapping element
          for( size_t i = 0; i < N; ++i ) for( int ord = 0; ord < (t == T_F64 ? 2 : 3); ++ord )
            { i64 a = AA[i]; int sg = guarded([&]{ s->fm_mixed(op, t, ord, a, tb); });
              if( sg ) lv.hit(c.c_trap, obase | i, [=]{ return mk(ord, a, "returns normally", "killed by signal " + std::to_string(sg)); }); }
          return;
          }
        if( t == T_F64 )
          {
          double d = bits_d(tb);
          for( size_t i = 0; i < N; ++i )
            {
            i64 a = AA[i];
            double da = bits_d(s->fm_to_fp(TF_STATIC_CAST, T_F64, a));
            u64 e1 = d_bits(ieee(op, da, d)), e2 = d_bits(ieee(op, d, da));
            ++l_dbl;
            if( !dbl_same(r_ft[i], e1) ) lv.hit(c.c_double, obase | i, [=]{ return mk(0, a, hex(e1) + " (" + dbl_s(bits_d(e1)) + ")", hex(r_ft[i]) + " (" + dbl_s(bits_d(r_ft[i])) + ")"); });
            if( !dbl_same(r_tf[i], e2) ) lv.hit(c.c_double, obase | i, [=]{ return mk(1, a, hex(e2) + " (" + dbl_s(bits_d(e2)) + ")", hex(r_tf[i]) + " (" + dbl_s(bits_d(r_tf[i])) + ")"); });
            }
          }
        else
          {
          bool conv_ok = C16::converts(t, tb);
          bool is_int = is_int_type(t);
          i128 n = is_int ? int_value(t, tb) : 0;
          bool have_prom = false;
          if( conv_ok )
            {
            i64 cv = is_int ? s->fm_from_int(FI_CTOR, t, tb) : s->fm_from_fp(FF_CTOR, T_F32, tb);
            convs.assign(N, cv);
            int sg2 = guarded([&]{ s->fm_bin_batch(BINOP[op], AA.data(), convs.data(), N, e_ft.data()); s->fm_bin_row(BINOP[op], cv, AA.data(), N, e_tf.data()); });
            have_prom = sg2 == 0;
            }
          for( size_t i = 0; i < N; ++i )
            {
            i64 a = AA[i];
            i64 g_ft = static_cast<i64>(r_ft[i]), g_tf = static_cast<i64>(r_tf[i]), g_as = static_cast<i64>(r_as[i]);
            // a op= t must leave a equal to a op t
            ++l_asg;
            if( g_as != g_ft ) lv.hit(c.c_assign, obase | i, [=]{ return mk(2, a, to_s(g_ft) + " (value of a op t)", to_s(g_as)); });
            bool exact_ft = is_int && (op == M_MUL || op == M_DIV);
            bool exact_tf = is_int && op == M_MUL;
            if( exact_ft ) { ++l_exact; if( !C16::exact_scalar(op, a, n, g_ft) ) lv.hit(c.c_exact, obase | i, [=]{ return mk(0, a, "exact integer semantics", to_s(g_ft)); }); }
            if( exact_tf ) { ++l_exact; if( !C16::exact_scalar(op, a, n, g_tf) ) lv.hit(c.c_exact, obase | i, [=]{ return mk(1, a, "exact integer semantics", to_s(g_tf)); }); }
            if( have_prom )
              {
              if( !exact_ft ) { ++l_prom; if( g_ft != e_ft[i] ) { i64 e = e_ft[i]; lv.hit(c.c_promoted, obase | i, [=]{ return mk(0, a, to_s(e) + " (= a op fixed_t(t))", to_s(g_ft)); }); } }
              if( !exact_tf ) { ++l_prom; if( g_tf != e_tf[i] ) { i64 e = e_tf[i]; lv.hit(c.c_promoted, obase | i, [=]{ return mk(1, a, to_s(e) + " (= fixed_t(t) op a)", to_s(g_tf)); }); } }
              }
            else if( !conv_ok ) ++l_skip;
            }
          }
        std::lock_guard<std::mutex> g(m); n_prom += l_prom; n_exact += l_exact; n_dbl += l_dbl; n_asg += l_asg; n_skipped += l_skip;
        });
      u64 n = static_cast<u64>(ts.size()) * (Sa.size() + 3 * MULT_K.size()) * (t == T_F64 ? 2 : 3);
      rec.add_states(n, n * 2, n_prom + n_exact + 2 * n_dbl + n_asg);
      rec.count("branch.compared_with_promoted", n_prom); rec.count("branch.compared_with_exact_integer", n_exact); rec.count("branch.compared_with_ieee_double", 2 * n_dbl);
      rec.count("branch.compound_vs_binary", n_asg); rec.count("branch.operand_does_not_convert_(promotion_clause_not_applicable)", n_skipped);
      }
    }
  rec.sample("fixed(2.5) * int16_t(-3) -> " + to_s(static_cast<i64>(shims[0]->fm_mixed(M_MUL, T_I16, O_FIX_T, 163840, static_cast<u64>(-3) & 0xffff))) + "; double(1.5) - fixed(2.5) -> " + dbl_s(bits_d(shims[0]->fm_mixed(M_SUB, T_F64, O_T_FIX, 163840, d_bits(1.5)))));
  rec.sample("fixed(1) / uint64_t(2^63+2) -> " + to_s(static_cast<i64>(shims[0]->fm_mixed(M_DIV, T_U64, O_FIX_T, 65536, (1ull<<63)+2))));
  }
void replay16(Options const& o, Shim* s, Recorder& rec)
  {
  C16 c(rec);
  int t = static_cast<int>(parse_i64(o.rin.at(0))), op = static_cast<int>(parse_i64(o.rin.at(1))), ord = static_cast<int>(parse_i64(o.rin.at(2))); i64 a = parse_i64(o.rin.at(3)); u64 tb = parse_u64(o.rin.at(4));
  auto mk = [&](int cl, std::string e, std::string g) { rec.viol(cl, 0, [&]{ return ex1(s, std::string("operator ") + OPC[op] + " (" + ORDS[ord] + ")", TN[t], {{"a",to_s(a)},{"t",C16::tval(t, tb)}}, e, g, o.rcase, o.rin); }); };
  u64 g = 0; int sg = guarded([&]{ g = s->fm_mixed(op, t, ord, a, tb); });
  rec.add_states(1,1,1);
  if( sg ) { mk(c.c_trap, "returns normally", "signal " + std::to_string(sg)); return; }
  if( t == T_F64 )
    { double da = bits_d(s->fm_to_fp(TF_STATIC_CAST, T_F64, a)), d = bits_d(tb); u64 e = d_bits(ord == 0 ? ieee(op, da, d) : ieee(op, d, da));
      if( !dbl_same(g, e) ) { mk(c.c_double, hex(e), hex(g)); }
      return; }
  i64 gi = static_cast<i64>(g);
  if( ord == 2 ) { i64 r = static_cast<i64>(s->fm_mixed(op, t, O_FIX_T, a, tb)); if( r != gi ) mk(c.c_assign, to_s(r), to_s(gi)); return; }
  bool is_int = is_int_type(t); bool exact = is_int && (op == M_MUL || (op == M_DIV && ord == 0));
  if( exact ) { if( !C16::exact_scalar(op, a, int_value(t, tb), gi) ) mk(c.c_exact, "exact integer semantics", to_s(gi)); return; }
  if( C16::converts(t, tb) )
    { i64 cv = is_int ? s->fm_from_int(FI_CTOR, t, tb) : s->fm_from_fp(FF_CTOR, T_F32, tb); i64 e = 0;
      int s2 = guarded([&]{ e = ord == 0 ? s->fm_bin(BINOP[op], a, cv) : s->fm_bin(BINOP[op], cv, a); });
      if( !s2 && e != gi ) mk(c.c_promoted, to_s(e), to_s(gi)); }
  }

//====================================================================== C17
// Model of one transition (value semantics of C01 / C02 / C03): returns false when the model leaves the result unspecified.
struct Op { int kind; i64 arg; int type; };       // 0: +b  1: -b  2: *n  3: /n  (n of integral type 'type')
inline bool model_step(Op const& op, i64 x, i64& y, bool& nan)
  {
  i128 r;
  switch(op.kind)
    {
    case 0: r = static_cast<i128>(x) + op.arg; break;
    case 1: r = static_cast<i128>(x) - op.arg; break;
    case 2: { i128 n = int_value(op.type, static_cast<u64>(op.arg) & t_mask(op.type)); r = static_cast<i128>(x) * n; break; }      // |x| < 2^63, n < 2^64: fits 128 bits
    default: { i128 n = int_value(op.type, static_cast<u64>(op.arg) & t_mask(op.type)); if( n == 0 ) { nan = true; return true; } r = static_cast<i128>(x) / n; break; }
    }
  nan = r < FX_LOWEST || r > FX_MAX;
  y = nan ? FX_NAN : static_cast<i64>(r);
  return true;
  }
inline i64 impl_step(Shim* s, Op const& op, i64 x)
  {
  switch(op.kind)
    {
    case 0: return s->fm_bin(B_ADD, x, op.arg);
    case 1: return s->fm_bin(B_SUB, x, op.arg);
    case 2: return static_cast<i64>(s->fm_mixed(M_MUL, op.type, O_FIX_T, x, static_cast<u64>(op.arg) & t_mask(op.type)));
    default: return static_cast<i64>(s->fm_mixed(M_DIV, op.type, O_FIX_T, x, static_cast<u64>(op.arg) & t_mask(op.type)));
    }
  }
std::string op_s(Op const& op) { static const char* k[4] = { "+", "-", "*", "/" }; return std::string(k[op.kind]) + (op.kind < 2 ? std::string("fixed(raw ") : std::string(TN[op.type]) + "(") + to_s(op.arg) + ")"; }
// integers n with the integral type that carries them
std::vector<std::pair<int,i64>> typed_n()
  {
  std::vector<std::pair<int,i64>> v;
  for( i64 n = -7; n <= 7; ++n ) v.push_back({T_I64, n});
  for( i64 n : { 1ll<<15, 1ll<<31, (1ll<<31)+1, 64ll, 63ll, 10ll, (1ll<<32)+1, (1ll<<32)-1, (7ll<<32)+1, (1ll<<40)-1 } ) { v.push_back({T_I64, n}); v.push_back({T_I64, -n}); }
  for( i64 n : { 3ll, 128ll, 200ll, 255ll } ) v.push_back({T_U8, n});
  for( i64 n : { -128ll, -3ll, 127ll } ) v.push_back({T_I8, n});
  for( i64 n : { 9ll, 32768ll, 65535ll } ) v.push_back({T_U16, n});
  for( i64 n : { -32768ll, 32767ll } ) v.push_back({T_I16, n});
  for( i64 n : { 5ll, 1ll<<31, (1ll<<32)-1 } ) v.push_back({T_U32, n});
  for( i64 n : { -(1ll<<31), (1ll<<31)-1, -11ll } ) v.push_back({T_I32, n});
  for( i64 n : { 6ll, (1ll<<32)+1, 1ll<<62 } ) v.push_back({T_U64, n});
  for( i64 n : { 3ll, 1ll<<40 } ) v.push_back({T_ULL, n});
  for( i64 n : { -5ll, 12ll, (1ll<<32)+1, -((11ll<<32)-1) } ) v.push_back({T_LL, n});
  for( int t : { T_I8, T_I16, T_I32, T_I64, T_LL } ) { v.push_back({t, -1}); v.push_back({t, 1}); }      // the units: (a * -1) / -1 reaches MIN / -1 of narrow fast paths
  for( int t : { T_U8, T_U32, T_ULL } ) v.push_back({t, 1});
  for( int t : { T_U64, T_ULL } ) for( i64 n : std::vector<i64>{ -2, -(1ll << 62), static_cast<i64>(0x8000000000000001ull) } ) v.push_back({t, n});   // 64-bit unsigned scalars above INT64_MAX (bit pattern given as int64)
  return v;
  }

struct C17
  {
  Recorder& rec; int c_step, c_law, c_trap;
  std::vector<i64> B; std::vector<std::pair<int,i64>> N;
  explicit C17(Recorder& r) : rec(r), c_step(r.cls("C17.transition_differs_from_model")), c_law(r.cls("C17.law_violated")), c_trap(r.cls("C17.trap")) {}
  // all law instances anchored at state a; returns number of instances whose premise held
  template<typename V> u64 laws(Shim* s, i64 a, u64 order, V& lv, bool with_mulcomm, bool long_sums = false)
    {
    u64 cnt = 0;
    auto bad = [&](const char* law, std::string detail, i64 l, i64 r, i64 b, i64 n) {
      lv.hit(c_law, order, [=]{ return ex1(s, law, "", {{"a",to_s(a)},{"b",to_s(b)},{"n",to_s(n)}}, "both sides equal (" + detail + ")", to_s(l) + " vs " + to_s(r), "law", {to_s(a)}); }); };
    auto add = [&](i64 x, i64 y) { return s->fm_bin(B_ADD, x, y); };
    auto sub = [&](i64 x, i64 y) { return s->fm_bin(B_SUB, x, y); };
    auto neg = [&](i64 x) { return s->fm_un(U_NEG, x); };
    { i64 z = sub(a, a); ++cnt; if( z != 0 ) bad("a - a == 0", "", z, 0, 0, 0); }
    bool small = a < (1ll<<47) && a > -(1ll<<47);
    if( small )
      {
      i64 m1 = s->fm_bin(B_MUL, a, 65536), m0 = s->fm_bin(B_MUL, a, 0), d1 = 0, da = 0; int sg = guarded([&]{ d1 = s->fm_bin(B_DIV, a, 65536); da = a ? s->fm_bin(B_DIV, a, a) : 65536; });
      cnt += 4;
      if( m1 != a ) bad("a * 1 == a", "|a| < 2^31", m1, a, 65536, 0);
      if( m0 != 0 ) bad("a * 0 == 0", "|a| < 2^31", m0, 0, 0, 0);
      if( sg ) lv.hit(c_trap, order, [=]{ return ex1(s, "a / 1, a / a", "", {{"a",to_s(a)}}, "returns normally", "signal " + std::to_string(sg), "law", {to_s(a)}); });
      else { if( d1 != a ) bad("a / 1 == a", "|a| < 2^31", d1, a, 65536, 0); if( da != 65536 ) bad("a / a == 1", "|a| < 2^31, a != 0", da, 65536, a, 0); }
      }
    for( i64 b : B )
      {
      i64 ab = add(a, b), ba = add(b, a); ++cnt;
      if( ab != ba ) bad("a + b == b + a", "", ab, ba, b, 0);
      i64 s1 = sub(a, b), s2 = add(a, neg(b)); ++cnt;
      if( s1 != s2 ) bad("a - b == a + (-b)", "", s1, s2, b, 0);
      if( with_mulcomm ) { i64 p1 = s->fm_bin(B_MUL, a, b), p2 = s->fm_bin(B_MUL, b, a); ++cnt; if( p1 != p2 ) bad("a * b == b * a", "", p1, p2, b, 0); }
      if( !fx_isnan(ab) ) { i64 back = sub(ab, b); if( !fx_isnan(back) ) { ++cnt; if( back != a ) bad("(a + b) - b == a", "no intermediate NaN", back, a, b, 0); } }
      }
    for( auto const& tn : N )
      {
      int nt = tn.first; i64 n = tn.second; u64 nb = static_cast<u64>(n) & t_mask(nt);
      // every way of writing the product and the quotient: a * n, n * a, x *= n;  q / n, x /= n
      static const char* MF[3] = { "(a * n)", "(n * a)", "(x = a, x *= n)" };
      i64 an = 0;
      for( int mo = 0; mo < 3; ++mo )
        {
        i64 p = static_cast<i64>(s->fm_mixed(M_MUL, nt, mo, a, nb));
        if( mo == 0 ) an = p;
        if( fx_isnan(p) ) continue;
        if( n != 0 ) for( int dv = 0; dv < 2; ++dv )
          {
          i64 q = 0; int sg = guarded([&]{ q = static_cast<i64>(s->fm_mixed(M_DIV, nt, dv ? O_ASSIGN : O_FIX_T, p, nb)); });
          std::string form = std::string(MF[mo]) + (dv ? " /= n" : " / n");
          if( sg ) lv.hit(c_trap, order, [=]{ return ex1(s, form, TN[nt], {{"a",to_s(a)},{"n",to_s(n)}}, "returns normally", "signal " + std::to_string(sg), "law", {to_s(a)}); });
          else if( !fx_isnan(q) ) { ++cnt; if( q != a ) lv.hit(c_law, order, [=]{ return ex1(s, form + " == a", TN[nt], {{"a",to_s(a)},{"n",to_s(n)}}, to_s(a) + " (no intermediate NaN)", to_s(q), "law", {to_s(a)}); }); }
          }
        }
      if( fx_isnan(an) ) continue;
      if( n >= 0 && (n <= 64 || (long_sums && n <= 255)) )
        {
        i64 sum = 0, sum2 = 0; bool ok = true;
        for( i64 k = 0; k < n && ok; ++k ) { sum = add(sum, a); sum2 = s->fm_bin(B_ADDEQ, sum2, a); if( fx_isnan(sum) ) ok = false; }
        if( ok ) { ++cnt; if( sum != an ) bad("a * n == a + a + ... + a (n times)", "no intermediate NaN", an, sum, 0, n);
                   if( sum2 != an ) bad("a * n == (x = 0, x += a, ... n times)", "no intermediate NaN", an, sum2, 0, n); }
        }
      }
    return cnt;
    }
  // three-operand laws on one triple
  template<typename V> u64 triple(Shim* s, i64 a, i64 b, i64 c, u64 order, V& lv)
    {
    u64 cnt = 0;
    auto add = [&](i64 x, i64 y) { return s->fm_bin(B_ADD, x, y); };
    i64 ab = add(a, b), bc = add(b, c);
    if( !fx_isnan(ab) && !fx_isnan(bc) )
      {
      i64 l = add(ab, c), r = add(a, bc);
      if( !fx_isnan(l) && !fx_isnan(r) ) { ++cnt; if( l != r ) lv.hit(c_law, order, [=]{ return ex1(s, "(a + b) + c == a + (b + c)", "", {{"a",to_s(a)},{"b",to_s(b)},{"c",to_s(c)}}, "equal", to_s(l) + " vs " + to_s(r), "triple", {to_s(a), to_s(b), to_s(c)}); }); }
      }
    if( a < b )
      {
      i64 ac = add(a, c);
      if( !fx_isnan(ac) && !fx_isnan(bc) ) { ++cnt; if( !(ac <= bc) ) lv.hit(c_law, order, [=]{ return ex1(s, "a < b implies a + c <= b + c", "", {{"a",to_s(a)},{"b",to_s(b)},{"c",to_s(c)}}, "a+c <= b+c", to_s(ac) + " vs " + to_s(bc), "triple", {to_s(a), to_s(b), to_s(c)}); }); }
      }
    return cnt;
    }
  };

void explore17(Options const& o, std::vector<Shim*> const& shims, std::vector<Shim*> const&, Recorder& rec)
  {
  bool th = o.tier == "thorough";
  C17 c(rec);
  c.B = S_set(1,0);
  c.N = typed_n();
  std::vector<Op> ops;
  for( i64 b : c.B ) { ops.push_back(Op{0,b,T_I64}); ops.push_back(Op{1,b,T_I64}); }
  for( auto const& tn : c.N ) { ops.push_back(Op{2,tn.second,tn.first}); ops.push_back(Op{3,tn.second,tn.first}); }
  std::vector<i64> seeds = S_set(2,1);
  int depth = th ? 3 : 2;
  std::vector<i64> cube = th ? S_set(2,1) : S_set(1,1);
  rec.note("alphabet", "BFS over operation histories: " + std::to_string(seeds.size()) + " seed values S(2,1), alphabet of " + std::to_string(ops.size()) + " operations (+b, -b for " + std::to_string(c.B.size())
           + " b in S(1,0); *n, /n for " + std::to_string(c.N.size()) + " typed integers n of 10 integral types), depth " + std::to_string(depth) + " (states de-duplicated by value; the last level is checked but not expanded); laws evaluated at every stored state; three-operand laws on the cube of " + std::to_string(cube.size()) + "^3 values");
  for( size_t ci = 0; ci < shims.size(); ++ci )
    {
    Shim* s = shims[ci];
    u64 ob = static_cast<u64>(ci) << 56;
    std::vector<i64> visited = seeds, frontier = seeds;
    for( int lvl = 0; lvl < depth; ++lvl )
      {
      bool last = lvl == depth - 1;
      bool do_laws = !(th && lvl == 2 && ci % 2 == 1);
      std::mutex m; std::vector<i64> next; u64 law_instances = 0, nan_trans = 0, trans = 0;
      const size_t B = 256; size_t nb = (frontier.size() + B - 1) / B;
      parallel_blocks(nb, o.threads, [&](size_t blk, int) {
        LocalViol lv(rec); std::vector<i64> local; u64 li = 0, ln = 0, lt = 0;
        for( size_t i = blk * B; i < std::min(frontier.size(), (blk + 1) * B); ++i )
          {
          i64 x = frontier[i];
          u64 ord = ob | (static_cast<u64>(lvl) << 52) | (static_cast<u64>(i) << 12);
          for( size_t k = 0; k < ops.size(); ++k )
            {
            Op const& op = ops[k];
            i64 y = 0; int sg = 0;
            if( op.kind == 3 ) sg = guarded([&]{ y = impl_step(s, op, x); }); else y = impl_step(s, op, x);
            ++lt;
            if( sg ) { lv.hit(c.c_trap, ord | k, [=]{ return ex1(s, "transition " + op_s(op), "level " + std::to_string(lvl), {{"x",to_s(x)}}, "returns normally", "signal " + std::to_string(sg), "step", {to_s(op.kind), to_s(op.arg), to_s(x), to_s(op.type)}); }); continue; }
            i64 my = 0; bool mnan = false; model_step(op, x, my, mnan);
            bool ok = mnan ? fx_isnan(y) : y == my;
            if( !ok ) lv.hit(c.c_step, ord | k, [=]{ return ex1(s, "transition " + op_s(op), "level " + std::to_string(lvl), {{"x",to_s(x)}}, mnan ? "NaN" : to_s(my), to_s(y), "step", {to_s(op.kind), to_s(op.arg), to_s(x), to_s(op.type)}); });
            if( mnan ) ++ln;
            else if( !last && ok ) local.push_back(y);
            }
          if( do_laws ) li += c.laws(s, x, ord, lv, lvl <= 1, lvl == 0);
          }
        std::lock_guard<std::mutex> g(m); law_instances += li; nan_trans += ln; trans += lt;
        if( !local.empty() ) next.insert(next.end(), local.begin(), local.end());
        });
      rec.add_states(frontier.size(), trans, trans + law_instances);
      rec.count("bfs.level" + std::to_string(lvl) + ".states." + s->name, frontier.size());
      rec.count("bfs.transitions", trans); rec.count("bfs.transitions_to_NaN_(terminal)", nan_trans); rec.count("law_instances_with_premise", law_instances);
      if( last ) break;
      std::sort(next.begin(), next.end()); next.erase(std::unique(next.begin(), next.end()), next.end());
      std::vector<i64> fresh; std::set_difference(next.begin(), next.end(), visited.begin(), visited.end(), std::back_inserter(fresh));
      std::vector<i64> merged; std::merge(visited.begin(), visited.end(), fresh.begin(), fresh.end(), std::back_inserter(merged));
      visited.swap(merged); frontier.swap(fresh);
      if( past_deadline() ) { rec.cap("deadline reached after BFS level " + std::to_string(lvl) + " in " + s->name); break; }
      }
    rec.count("bfs.distinct_states." + s->name, visited.size());
    // two-step histories executed INSIDE one function (x op1= b; x op2= c;) must equal the same history executed call by call
    {
    int c_seq = rec.cls("C17.in_function_history_differs_from_stepwise");
    std::vector<i64> xs = S_set(1,0);
    std::vector<i64> ys { 0, 1, -1, 65536, -65536, 3 * 65536, -98304, 205887, 1ll << 40, -(1ll << 46), 1ll << 62, FX_MAX, FX_LOWEST };
    const int EQ[4] = { B_ADDEQ, B_SUBEQ, B_MULEQ, B_DIVEQ };
    std::mutex m; u64 tot = 0;
    parallel_blocks(xs.size(), o.threads, [&](size_t ia, int) {
      LocalViol lv(rec); u64 n = 0; i64 a = xs[ia];
      for( int o1 = 0; o1 < 4; ++o1 ) for( int o2 = 0; o2 < 4; ++o2 ) for( i64 b : ys ) for( i64 cc : ys )
        {
        i64 got = 0, step = 0;
        int sg = guarded([&]{ got = s->fm_seq_compound(o1, o2, a, b, cc); step = s->fm_bin(EQ[o2], s->fm_bin(EQ[o1], a, b), cc); });
        ++n;
        if( !sg && o1 < 2 && o2 < 2 )
          {   // + and - are exact: the in-function history must also equal the value model (when no intermediate result is NaN)
          i128 m1 = o1 == 0 ? static_cast<i128>(a) + b : static_cast<i128>(a) - b;
          if( m1 >= FX_LOWEST && m1 <= FX_MAX && fx_finite(a) && fx_finite(b) && fx_finite(cc) )
            { i128 m2 = o2 == 0 ? m1 + cc : m1 - cc; bool nan2 = m2 < FX_LOWEST || m2 > FX_MAX;
              if( nan2 ? !fx_isnan(got) : got != static_cast<i64>(m2) ) lv.hit(c_seq, ob | (13ull << 52) | (ia << 20) | static_cast<u64>((o1 * 4 + o2) * 256 + n % 256), [=]{ return ex1(s, "x op1= b; x op2= c; in one function", std::string("op1=") + "+-*/"[o1] + " op2=" + "+-*/"[o2] + " vs exact model", {{"x",to_s(a)},{"b",to_s(b)},{"c",to_s(cc)}}, nan2 ? std::string("NaN") : to_s128(m2), to_s(got), "seq", {to_s(o1), to_s(o2), to_s(a), to_s(b), to_s(cc)}); }); }
          }
        if( sg || got != step ) lv.hit(c_seq, ob | (14ull << 52) | (ia << 20) | static_cast<u64>((o1 * 4 + o2) * 256 + n % 256), [=]{ return ex1(s, "x op1= b; x op2= c; in one function", std::string("op1=") + "+-*/"[o1] + " op2=" + "+-*/"[o2], {{"x",to_s(a)},{"b",to_s(b)},{"c",to_s(cc)}}, to_s(step) + " (step by step)", sg ? "signal " + std::to_string(sg) : to_s(got), "seq", {to_s(o1), to_s(o2), to_s(a), to_s(b), to_s(cc)}); });
        }
      std::lock_guard<std::mutex> g(m); tot += n;
      });
    rec.add_states(tot, 3 * tot, tot); rec.count("in_function_two_step_histories", tot);
    }
    // cube for the three-operand laws
    std::mutex m; u64 tl = 0;
    parallel_blocks(cube.size(), o.threads, [&](size_t ia, int) {
      LocalViol lv(rec); u64 l = 0;
      for( size_t ib = 0; ib < cube.size(); ++ib ) for( size_t ic = 0; ic < cube.size(); ++ic )
        l += c.triple(s, cube[ia], cube[ib], cube[ic], ob | (15ull << 52) | ((ia * cube.size() + ib) * cube.size() + ic), lv);
      std::lock_guard<std::mutex> g(m); tl += l;
      });
    u64 n3 = static_cast<u64>(cube.size()) * cube.size() * cube.size();
    rec.add_states(n3, n3 * 4, tl);
    rec.count("law_instances_with_premise", tl);
    }
  rec.sample("history: seed raw 65536, +fixed(raw 2^62), +fixed(raw 2^62) -> " + to_s(shims[0]->fm_bin(B_ADD, shims[0]->fm_bin(B_ADD, 65536, 1ll<<62), 1ll<<62)) + " (NaN: terminal state)");
  rec.sample("law (a*n)/n == a at a=raw 205887, n=uint8_t(200): " + to_s(static_cast<i64>(shims[0]->fm_mixed(M_DIV, T_U8, O_FIX_T, static_cast<i64>(shims[0]->fm_mixed(M_MUL, T_U8, O_FIX_T, 205887, 200)), 200))));
  }
void replay17(Options const& o, Shim* s, Recorder& rec)
  {
  C17 c(rec); DirectViol d{rec};
  c.B = S_set(1,0);
  c.N = typed_n();
  if( o.rcase == "seq" )
    {
    const int EQ[4] = { B_ADDEQ, B_SUBEQ, B_MULEQ, B_DIVEQ };
    int o1 = static_cast<int>(parse_i64(o.rin.at(0))), o2 = static_cast<int>(parse_i64(o.rin.at(1))); i64 a = parse_i64(o.rin.at(2)), b = parse_i64(o.rin.at(3)), cc = parse_i64(o.rin.at(4));
    i64 got = 0, step = 0; int sg = guarded([&]{ got = s->fm_seq_compound(o1, o2, a, b, cc); step = s->fm_bin(EQ[o2], s->fm_bin(EQ[o1], a, b), cc); });
    bool bad = sg || got != step;
    if( !sg && o1 < 2 && o2 < 2 ) { i128 m1 = o1 == 0 ? static_cast<i128>(a) + b : static_cast<i128>(a) - b;
      if( m1 >= FX_LOWEST && m1 <= FX_MAX && fx_finite(a) && fx_finite(b) && fx_finite(cc) ) { i128 m2 = o2 == 0 ? m1 + cc : m1 - cc; bool nan2 = m2 < FX_LOWEST || m2 > FX_MAX; if( nan2 ? !fx_isnan(got) : got != static_cast<i64>(m2) ) bad = true; } }
    if( bad ) rec.viol(rec.cls("C17.in_function_history_differs_from_stepwise"), 0, [&]{ return ex1(s, "x op1= b; x op2= c;", "", {{"x",to_s(a)},{"b",to_s(b)},{"c",to_s(cc)}}, to_s(step) + " (step by step) / exact model", to_s(got), o.rcase, o.rin); });
    }
  else if( o.rcase == "law" ) c.laws(s, parse_i64(o.rin.at(0)), 0, d, true, true);
  else if( o.rcase == "triple" ) c.triple(s, parse_i64(o.rin.at(0)), parse_i64(o.rin.at(1)), parse_i64(o.rin.at(2)), 0, d);
  else
    {
    Op op{ static_cast<int>(parse_i64(o.rin.at(0))), parse_i64(o.rin.at(1)), static_cast<int>(parse_i64(o.rin.at(3))) }; i64 x = parse_i64(o.rin.at(2));
    i64 y = 0; int sg = guarded([&]{ y = impl_step(s, op, x); });
    if( sg ) rec.viol(c.c_trap, 0, [&]{ return ex1(s, "transition " + op_s(op), "", {{"x",to_s(x)}}, "returns normally", "signal " + std::to_string(sg), o.rcase, o.rin); });
    else { i64 my = 0; bool mnan = false; model_step(op, x, my, mnan);
           if( !(mnan ? fx_isnan(y) : y == my) ) rec.viol(c.c_step, 0, [&]{ return ex1(s, "transition " + op_s(op), "", {{"x",to_s(x)}}, mnan ? "NaN" : to_s(my), to_s(y), o.rcase, o.rin); }); }
    }
  rec.add_states(1,1,1);
  }
// pointwise clauses only: fixed*integer, integer*fixed, fixed/integer (exact integer semantics) and the double forms (IEEE on
// double(a)); the "equals the promoted computation" clause relates two calls and is judged as a law line by the driver
bool judge16(Shim* s, Recorder& rec, std::string const& kind, std::vector<u64> const& a, u64 value, u64 idx)
  {
  if( !(kind == "mixed" && a.size() == 5) ) return false;
  C16 c(rec);
  int op = static_cast<int>(a[0]), t = static_cast<int>(a[1]), ord = static_cast<int>(a[2]); i64 x = static_cast<i64>(a[3]); u64 tb = a[4];
  if( !fx_finite(x) ) return true;
  auto mk = [&](std::string e, std::string g) { return ex1(s, std::string("operator ") + OPC[op] + " (" + ORDS[ord] + ")", TN[t], {{"a",to_s(x)},{"t",C16::tval(t, tb)}}, e, g, "mix", {}); };
  if( t == T_F64 )
    {
    if( ord == O_ASSIGN ) return false;
    if( x > (1ll << 53) || x < -(1ll << 53) ) return true;
    double da = static_cast<double>(x) / 65536.0, dv = bits_d(tb);
    u64 e = d_bits(ord == O_FIX_T ? ieee(op, da, dv) : ieee(op, dv, da));
    if( !dbl_same(value, e) ) rec.viol(c.c_double, idx, [&]{ return mk(hex(e) + " (" + dbl_s(bits_d(e)) + ")", hex(value) + " (" + dbl_s(bits_d(value)) + ")"); });
    return true;
    }
  if( is_int_type(t) && ((op == M_MUL) || (op == M_DIV && ord != O_T_FIX)) )
    {
    if( !C16::exact_scalar(op, x, int_value(t, tb), static_cast<i64>(value)) ) rec.viol(c.c_exact, idx, [&]{ return mk("exact integer semantics", to_s(static_cast<i64>(value))); });
    return true;
    }
  return false;
  }
}
REGISTER_PROPERTY(C16, explore16, replay16)
REGISTER_JUDGE(C16, judge16)
REGISTER_PROPERTY(C17, explore17, replay17)
