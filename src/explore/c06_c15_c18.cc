// C06 ordering / NaN sentinel / negation / abs,  C15 floor / ceil,  C18 shifts and &.
// All three have exact integer oracles.
#include "common.h"
#include "types.h"

namespace {
inline i128 floor_div_local(i128 x, i128 d) { i128 q = x / d; if( (x % d != 0) && ((x < 0) != (d < 0)) ) --q; return q; }

//====================================================================== C06
const int CMPS[6] = { B_EQ, B_NE, B_LT, B_LE, B_GT, B_GE };
const char* CMPN[6] = { "==", "!=", "<", "<=", ">", ">=" };
inline bool cmp_model(int k, i64 a, i64 b)
  { switch(k) { case 0: return a==b; case 1: return a!=b; case 2: return a<b; case 3: return a<=b; case 4: return a>b; default: return a>=b; } }

struct C06
  {
  Recorder& rec; int c_cmp, c_isnan, c_neg, c_abs;
  explicit C06(Recorder& r) : rec(r), c_cmp(r.cls("C06.comparison_wrong")), c_isnan(r.cls("C06.isnan_wrong")),
                              c_neg(r.cls("C06.negation_wrong")), c_abs(r.cls("C06.abs_wrong")) {}
  template<typename V> void cmp(Shim* s, int k, i64 a, i64 b, i64 got, u64 order, V& lv)
    {
    bool e = cmp_model(k, a, b);
    if( (got != 0) != e || (got != 0 && got != 1) )
      lv.hit(c_cmp, order, [=]{ return ex1(s, std::string("operator ") + CMPN[k], "", {{"a",to_s(a)},{"b",to_s(b)}}, e ? "true" : "false", to_s(got), "cmp", {to_s(k), to_s(a), to_s(b)}); });
    }
  template<typename V> void un(Shim* s, int op, i64 x, i64 got, u64 order, V& lv)
    {
    if( op == U_ISNAN )
      {
      i64 e = (x == FX_NAN || x == -FX_NAN) ? 1 : 0;
      if( got != e ) lv.hit(c_isnan, order, [=]{ return ex1(s, "isnan", "", {{"x",to_s(x)}}, to_s(e), to_s(got), "un", {to_s(op), to_s(x)}); });
      }
    else if( op == U_NEG )
      {
      if( got != -x || !fx_finite(got) ) lv.hit(c_neg, order, [=]{ return ex1(s, "operator -", "", {{"x",to_s(x)}}, to_s(-x), to_s(got), "un", {to_s(op), to_s(x)}); });
      }
    else
      {
      i64 e = x < 0 ? -x : x;
      if( got != e || got < 0 || !fx_finite(got) ) lv.hit(c_abs, order, [=]{ return ex1(s, "abs", "", {{"x",to_s(x)}}, to_s(e), to_s(got), "un", {to_s(op), to_s(x)}); });
      }
    }
  };

void explore06(Options const& o, std::vector<Shim*> const& shims, std::vector<Shim*> const&, Recorder& rec)
  {
  bool th = o.tier == "thorough";
  std::vector<i64> Sc = th ? S_set(6,4,true,true) : S_set(4,2,true,true);
  std::vector<i64> Su = merge_sets(th ? S_set(10,8) : S_set(8,4), S2_set(th ? 3 : 2));
  std::vector<i64> Sn = Su; Sn.push_back(FX_NAN); Sn.push_back(-FX_NAN);
  i64 D = th ? (1ll<<24) : (1ll<<20);
  rec.note("alphabet", "comparisons: (S u {+-NaN, INT64_MIN})^2, |S|=" + std::to_string(Sc.size()) + "; unary: S |S|=" + std::to_string(Su.size()) + " u every raw in [-" + to_s(D) + "," + to_s(D) + "]");
  C06 c(rec);
  for( size_t ci = 0; ci < shims.size(); ++ci )
    {
    Shim* s = shims[ci];
    u64 ob = static_cast<u64>(ci) << 56;
    for( int k = 0; k < 6; ++k )
      sweep_pairs(s, CMPS[k], Sc, Sc, o.threads, rec, ob | (static_cast<u64>(k) << 48), [&](i64 a, i64 b, i64 got, u64 ord, LocalViol& lv) { c.cmp(s, k, a, b, got, ord, lv); });
    int uops[3] = { U_ISNAN, U_NEG, U_ABS };
    for( int ui = 0; ui < 3; ++ui )
      {
      int op = uops[ui];
      u64 ob2 = ob | (static_cast<u64>(8 + ui) << 48);
      sweep_un_set(s, op, op == U_ISNAN ? Sn : Su, o.threads, rec, ob2, [&](i64 x, i64 got, u64 ord, LocalViol& lv) { c.un(s, op, x, got, ord, lv); });
      sweep_un_range(s, op, -D, D, o.threads, rec, ob2 | (1ull << 40), [&](i64 x, i64 got, u64 ord, LocalViol& lv) { c.un(s, op, x, got, ord, lv); });
      }
    // comparisons of -x, abs(x), isnan(x) against constants evaluated in the same inlined scope as the call
    {
    int c_scope = rec.cls("C06.comparison_of_fresh_result_wrong");
    for( int op : { U_NEG, U_ABS, U_ISNAN } )
      {
      std::vector<i64> const& X = Sn;
      const size_t B = 4096; size_t nb = (X.size() + B - 1) / B;
      parallel_blocks(nb, o.threads, [&](size_t blk, int) {
        LocalViol lv(rec);
        for( size_t i = blk * B; i < std::min(X.size(), (blk + 1) * B); ++i )
          {
          i64 x = X[i]; i64 r = s->fm_un(op, x); u64 got = s->fm_un_cmpmask(op, x), e = expected_cmpmask(s, r);
          if( got != e ) lv.hit(c_scope, ob | (12ull << 48) | (static_cast<u64>(op) << 40) | i, [=]{ return ex1(s, op == U_NEG ? "comparisons of (-x)" : op == U_ABS ? "comparisons of abs(x)" : "comparisons of isnan(x)", "same scope as the call", {{"x",to_s(x)}},
              "mask " + hex(e) + " (from the returned raw value " + to_s(r) + ")", "mask " + hex(got), "mask", {to_s(op), to_s(x)}); });
          }
        });
      rec.add_states(X.size(), 2 * X.size(), X.size());
      }
    }
    // comparisons applied directly to the results of two calls in one inlined scope: floor/ceil/-x/abs of a and b
    {
    int c_res = rec.cls("C06.comparison_of_two_fresh_results_wrong");
    std::vector<i64> P; for( i64 x : (th ? S_set(5,2,true,true) : S_set(4,2,true,true)) ) if( fx_finite(x) ) P.push_back(x);      // |P|^2 x 24 calls per configuration
    for( int op : { U_FLOOR, U_CEIL, U_NEG, U_ABS } )
      {
      std::vector<i64> R1(P.size()); for( size_t i = 0; i < P.size(); ++i ) R1[i] = s->fm_un(op, P[i]);
      parallel_blocks(P.size(), o.threads, [&](size_t ia, int) {
        LocalViol lv(rec);
        for( size_t ib = 0; ib < P.size(); ++ib ) for( int k = 0; k < 6; ++k )
          {
          i64 g = s->fm_cmp_results(op, k, P[ia], P[ib]); bool e = cmp_model(k, R1[ia], R1[ib]);
          if( (g != 0) != e ) { i64 a = P[ia], b = P[ib], r1 = R1[ia], r2 = R1[ib]; lv.hit(c_res, ob | (14ull << 48) | (static_cast<u64>(op) << 40) | ((ia * P.size() + ib) * 8 + static_cast<u64>(k)), [=]{ return ex1(s, std::string("f(a) ") + CMPN[k] + " f(b)", op == U_FLOOR ? "f = floor, one scope" : op == U_CEIL ? "f = ceil, one scope" : op == U_NEG ? "f = unary minus, one scope" : "f = abs, one scope",
              {{"a",to_s(a)},{"b",to_s(b)}}, std::string(e ? "true" : "false") + " (f(a) = " + to_s(r1) + ", f(b) = " + to_s(r2) + ")", to_s(g), "cmpres", {to_s(op), to_s(k), to_s(a), to_s(b)}); }); }
          }
        });
      u64 n = static_cast<u64>(P.size()) * P.size() * 6; rec.add_states(n, n, n);
      }
    }
    // the same object negated / abs'ed / isnan'ed twice in one function with an assignment in between
    {
    int c_seq = rec.cls("C06.second_call_on_modified_object_wrong");
    std::vector<i64> sv { 0, 1, -1, 65536, -65536, 98304, -98305, 1ll << 40, -(1ll << 46) - 3, FX_MAX, FX_LOWEST, FX_NAN, -FX_NAN, 12345678901ll, -5 };
    LocalViol lv(rec); u64 n = 0;
    for( int op : { U_NEG, U_ABS, U_ISNAN } ) for( size_t i = 0; i < sv.size(); ++i ) for( size_t j = 0; j < sv.size(); ++j )
      {
      i64 a = sv[i], b = sv[j]; if( op != U_ISNAN && (fx_isnan(a) || fx_isnan(b)) ) continue;
      i64 r1 = 0, r2 = 0; s->fm_seq_un(op, a, b, &r1, &r2); ++n;
      auto model = [&](i64 x) -> i64 { return op == U_NEG ? -x : op == U_ABS ? (x < 0 ? -x : x) : (fx_isnan(x) ? 1 : 0); };
      if( r1 != model(a) || r2 != model(b) ) lv.hit(c_seq, ob | (13ull << 48) | (static_cast<u64>(op) << 40) | (i * 64 + j), [=]{ return ex1(s, op == U_NEG ? "-x; x = b; -x" : op == U_ABS ? "abs(x); x = b; abs(x)" : "isnan(x); x = b; isnan(x)", "same object, one function", {{"a",to_s(a)},{"b",to_s(b)}},
          to_s(op == U_NEG ? -a : op == U_ABS ? (a < 0 ? -a : a) : (fx_isnan(a) ? 1 : 0)) + ", " + to_s(op == U_NEG ? -b : op == U_ABS ? (b < 0 ? -b : b) : (fx_isnan(b) ? 1 : 0)), to_s(r1) + ", " + to_s(r2), "sequn", {to_s(op), to_s(a), to_s(b)}); });
      }
    rec.add_states(n, 2 * n, 2 * n);
    }
    // derived laws, directly on implementation values (no oracle): -(-x) == x, abs(-x) == abs(x)
    {
    int c_law = rec.cls("C06.law_violated");
    LocalViol lv(rec);
    for( size_t i = 0; i < Su.size(); ++i )
      {
      i64 x = Su[i];
      i64 nn = s->fm_un(U_NEG, s->fm_un(U_NEG, x));
      i64 a1 = s->fm_un(U_ABS, s->fm_un(U_NEG, x)), a2 = s->fm_un(U_ABS, x);
      if( nn != x ) lv.hit(c_law, ob | i, [=]{ return ex1(s, "-(-x)", "", {{"x",to_s(x)}}, to_s(x), to_s(nn), "law", {to_s(x)}); });
      if( a1 != a2 ) lv.hit(c_law, ob | i, [=]{ return ex1(s, "abs(-x) vs abs(x)", "", {{"x",to_s(x)}}, to_s(a2), to_s(a1), "law", {to_s(x)}); });
      }
    rec.add_states(Su.size(), Su.size()*5, Su.size()*2);
    }
    }
  Shim* s0 = shims[0];
  rec.sample("NaN > max(): " + to_s(s0->fm_bin(B_GT, FX_NAN, FX_MAX)) + "; -NaN < lowest(): " + to_s(s0->fm_bin(B_LT, -FX_NAN, FX_LOWEST)));
  rec.sample("isnan(-NaN)=" + to_s(s0->fm_un(U_ISNAN, -FX_NAN)) + " isnan(max())=" + to_s(s0->fm_un(U_ISNAN, FX_MAX)) + " abs(lowest())=" + to_s(s0->fm_un(U_ABS, FX_LOWEST)));
  rec.count("nan_inputs_to_isnan", 2 * shims.size());
  }
void replay06(Options const& o, Shim* s, Recorder& rec)
  {
  C06 c(rec);
  DirectViol d{rec};
  if( o.rcase == "cmp" ) { int k = static_cast<int>(parse_i64(o.rin.at(0))); i64 a = parse_i64(o.rin.at(1)), b = parse_i64(o.rin.at(2)); c.cmp(s, k, a, b, s->fm_bin(CMPS[k], a, b), 0, d); }
  else if( o.rcase == "un" ) { int op = static_cast<int>(parse_i64(o.rin.at(0))); i64 x = parse_i64(o.rin.at(1)); c.un(s, op, x, s->fm_un(op, x), 0, d); }
  else if( o.rcase == "cmpres" )
    { int op = static_cast<int>(parse_i64(o.rin.at(0))), k = static_cast<int>(parse_i64(o.rin.at(1))); i64 a = parse_i64(o.rin.at(2)), b = parse_i64(o.rin.at(3));
      i64 g = s->fm_cmp_results(op, k, a, b); bool e = cmp_model(k, s->fm_un(op, a), s->fm_un(op, b));
      if( (g != 0) != e ) rec.viol(rec.cls("C06.comparison_of_two_fresh_results_wrong"), 0, [&]{ return ex1(s, "f(a) cmp f(b) in one scope", "", {{"a",to_s(a)},{"b",to_s(b)}}, e ? "true" : "false", to_s(g), o.rcase, o.rin); }); }
  else if( o.rcase == "sequn" )
    { int op = static_cast<int>(parse_i64(o.rin.at(0))); i64 a = parse_i64(o.rin.at(1)), b = parse_i64(o.rin.at(2)); i64 r1 = 0, r2 = 0; s->fm_seq_un(op, a, b, &r1, &r2);
      auto model = [&](i64 x) -> i64 { return op == U_NEG ? -x : op == U_ABS ? (x < 0 ? -x : x) : (fx_isnan(x) ? 1 : 0); };
      if( r1 != model(a) || r2 != model(b) ) rec.viol(rec.cls("C06.second_call_on_modified_object_wrong"), 0, [&]{ return ex1(s, "two calls on one object", "", {{"a",to_s(a)},{"b",to_s(b)}}, to_s(model(a)) + ", " + to_s(model(b)), to_s(r1) + ", " + to_s(r2), o.rcase, o.rin); }); }
  else if( o.rcase == "mask" )
    { int op = static_cast<int>(parse_i64(o.rin.at(0))); i64 x = parse_i64(o.rin.at(1)); i64 r = s->fm_un(op, x); u64 got = s->fm_un_cmpmask(op, x), e = expected_cmpmask(s, r);
      if( got != e ) rec.viol(rec.cls("C06.comparison_of_fresh_result_wrong"), 0, [&]{ return ex1(s, "comparisons of a fresh result", "", {{"x",to_s(x)}}, hex(e), hex(got), o.rcase, o.rin); }); }
  else if( o.rcase == "law" )
    {
    i64 x = parse_i64(o.rin.at(0)); int c_law = rec.cls("C06.law_violated");
    i64 nn = s->fm_un(U_NEG, s->fm_un(U_NEG, x)), a1 = s->fm_un(U_ABS, s->fm_un(U_NEG, x)), a2 = s->fm_un(U_ABS, x);
    if( nn != x || a1 != a2 ) rec.viol(c_law, 0, [&]{ return ex1(s, "law", "", {{"x",to_s(x)}}, "-(-x)==x and abs(-x)==abs(x)", to_s(nn) + "," + to_s(a1) + "," + to_s(a2), o.rcase, o.rin); });
    }
  rec.add_states(1,1,1);
  }

//====================================================================== C15
struct C15
  {
  Recorder& rec; int c_floor, c_ceil, c_rel;
  explicit C15(Recorder& r) : rec(r), c_floor(r.cls("C15.floor_wrong")), c_ceil(r.cls("C15.ceil_wrong")), c_rel(r.cls("C15.ceil_ne_minus_floor_minus")) {}
  static bool in_domain(i64 x) { i64 lim = ((1ll<<47) - 1) << 16; return x > -lim && x < lim; }
  template<typename V> void chk(Shim* s, int op, i64 x, i64 got, u64 order, V& lv)
    {
    i64 fl = static_cast<i64>(floor_div(x, 65536) * 65536);
    i64 ce = static_cast<i64>(-floor_div(-static_cast<i128>(x), 65536) * 65536);
    if( op == U_FLOOR )
      {
      bool ok = got == fl && (got & 0xffff) == 0 && got <= x && static_cast<i128>(x) < static_cast<i128>(got) + 65536;
      if( !ok ) lv.hit(c_floor, order, [=]{ return ex1(s, "floor", "", {{"x",to_s(x)}}, to_s(fl), to_s(got), "un", {to_s(op), to_s(x)}); });
      }
    else
      {
      bool ok = got == ce && (got & 0xffff) == 0 && static_cast<i128>(got) - 65536 < x && x <= got;
      if( !ok ) lv.hit(c_ceil, order, [=]{ return ex1(s, "ceil", x % 65536 == 0 ? "integer-valued argument" : "", {{"x",to_s(x)}}, to_s(ce), to_s(got), "un", {to_s(op), to_s(x)}); });
      }
    }
  };
void explore15(Options const& o, std::vector<Shim*> const& shims, std::vector<Shim*> const&, Recorder& rec)
  {
  bool th = o.tier == "thorough";
  std::vector<i64> S;
  for( i64 x : merge_sets(th ? S_set(10,8) : S_set(8,4), S2_set(th ? 3 : 2)) ) if( C15::in_domain(x) ) S.push_back(x);
  // floor and ceil act on two fields: the product of shape-bounded integral parts I (few significant bits counted from zero AND from the
  // limit 2^47: m*2^e + d and 2^47 - m*2^e + d, both signs) with shape-bounded fractions f (every single bit, every run of ones from the
  // bottom and from the top, +-1 of each). A rounding that loses one fraction bit, or goes wrong only next to the limit, needs both at once
  size_t n_field = 0;
  {
  std::vector<i64> I, F;
  int wI = th ? 6 : 4;
  for( i64 m = 0; m < (1ll << wI); ++m ) for( int e = 0; e <= 46; ++e ) for( i64 d = -2; d <= 2; ++d )
    { i128 v = (static_cast<i128>(m) << e); if( v > (static_cast<i128>(1) << 47) ) continue;
      for( i128 b : { v, (static_cast<i128>(1) << 47) - v } ) for( int sg = -1; sg <= 1; sg += 2 ) { i128 i = sg * b + d; if( i > -(static_cast<i128>(1) << 47) && i < (static_cast<i128>(1) << 47) ) I.push_back(static_cast<i64>(i)); } }
  std::sort(I.begin(), I.end()); I.erase(std::unique(I.begin(), I.end()), I.end());
  for( int j = 0; j <= 16; ++j ) for( i64 d = -1; d <= 1; ++d ) for( i64 b : { 1ll << j, (1ll << j) - 1, 65536 - (1ll << j) } ) { i64 f = b + d; if( f >= 0 && f < 65536 ) F.push_back(f); }
  std::sort(F.begin(), F.end()); F.erase(std::unique(F.begin(), F.end()), F.end());
  std::vector<i64> P; P.reserve(I.size() * F.size());
  for( i64 i : I ) for( i64 f : F ) { i128 x = static_cast<i128>(i) * 65536 + f; if( x > INT64_MIN && x < INT64_MAX && C15::in_domain(static_cast<i64>(x)) ) P.push_back(static_cast<i64>(x)); }
  n_field = P.size();
  S = merge_sets(S, P);
  }
  i64 D = th ? (1ll<<26) : (1ll<<20);
  rec.note("alphabet", "S u (integral parts x fractions: " + std::to_string(n_field) + " field products), |S|=" + std::to_string(S.size()) + " restricted to |x| < 2^47-1, u every raw in [-" + to_s(D) + "," + to_s(D) + "]");
  C15 c(rec);
  u64 integers = 0; for( i64 x : S ) if( x % 65536 == 0 ) ++integers;
  rec.count("branch.integer_valued_arguments", integers * shims.size() + static_cast<u64>(2*(D/65536)+1) * shims.size());
  rec.count("branch.fractional_arguments", (S.size() - integers) * shims.size());
  for( size_t ci = 0; ci < shims.size(); ++ci )
    {
    Shim* s = shims[ci];
    u64 ob = static_cast<u64>(ci) << 56;
    for( int op : { U_FLOOR, U_CEIL } )
      {
      u64 ob2 = ob | (static_cast<u64>(op) << 48);
      sweep_un_set(s, op, S, o.threads, rec, ob2, [&](i64 x, i64 got, u64 ord, LocalViol& lv) { c.chk(s, op, x, got, ord, lv); });
      sweep_un_range(s, op, -D, D, o.threads, rec, ob2 | (1ull<<40), [&](i64 x, i64 got, u64 ord, LocalViol& lv) { c.chk(s, op, x, got, ord, lv); });
      }
    // ceil(x) == -floor(-x) on implementation values
    LocalViol lv(rec);
    for( size_t i = 0; i < S.size(); ++i )
      {
      i64 x = S[i];
      i64 l = s->fm_un(U_CEIL, x), r = s->fm_un(U_NEG, s->fm_un(U_FLOOR, s->fm_un(U_NEG, x)));
      if( l != r ) lv.hit(c.c_rel, ob | i, [=]{ return ex1(s, "ceil(x) == -floor(-x)", "", {{"x",to_s(x)}}, to_s(r), to_s(l), "rel", {to_s(x)}); });
      }
    rec.add_states(S.size(), S.size()*4, S.size());
    }
  rec.sample("ceil(65536)=" + to_s(shims[0]->fm_un(U_CEIL, 65536)) + " ceil(65537)=" + to_s(shims[0]->fm_un(U_CEIL, 65537)) + " floor(-1)=" + to_s(shims[0]->fm_un(U_FLOOR, -1)));
  }
void replay15(Options const& o, Shim* s, Recorder& rec)
  {
  C15 c(rec);
  DirectViol d{rec};
  if( o.rcase == "un" ) { int op = static_cast<int>(parse_i64(o.rin.at(0))); i64 x = parse_i64(o.rin.at(1)); c.chk(s, op, x, s->fm_un(op, x), 0, d); }
  else { i64 x = parse_i64(o.rin.at(0)); i64 l = s->fm_un(U_CEIL, x), r = s->fm_un(U_NEG, s->fm_un(U_FLOOR, s->fm_un(U_NEG, x)));
         if( l != r ) rec.viol(c.c_rel, 0, [&]{ return ex1(s, "ceil(x) == -floor(-x)", "", {{"x",to_s(x)}}, to_s(r), to_s(l), o.rcase, o.rin); }); }
  rec.add_states(1,1,1);
  }

//====================================================================== C18
struct C18
  {
  Recorder& rec; int c_shr, c_shl_exact, c_shl_sign, c_neg, c_and;
  explicit C18(Recorder& r) : rec(r), c_shr(r.cls("C18.shr_not_floor")), c_shl_exact(r.cls("C18.shl_in_range_wrong")),
     c_shl_sign(r.cls("C18.shl_overflow_opposite_sign")), c_neg(r.cls("C18.negative_count_not_nan")), c_and(r.cls("C18.and_wrong")) {}
  template<typename V> void shift(Shim* s, int left, i64 x, int r, i64 got, u64 order, V& lv, int ctype = -1)
    {
    auto mk = [=](std::string exp) { return ctype < 0 ? ex1(s, left ? "operator <<" : "operator >>", "", {{"x",to_s(x)},{"r",to_s(r)}}, exp, to_s(got), "shift", {to_s(left), to_s(x), to_s(r)})
                                                      : ex1(s, left ? "operator <<" : "operator >>", std::string("count of type ") + TN[ctype], {{"x",to_s(x)},{"r",to_s(r)}}, exp, to_s(got), "tshift", {to_s(left), to_s(ctype), to_s(x), to_s(r)}); };
    if( r < 0 ) { if( !fx_isnan(got) ) lv.hit(c_neg, order, [=]{ return mk("NaN"); }); return; }
    if( !left )
      {
      i64 e = static_cast<i64>(floor_div(x, static_cast<i128>(1) << r));
      if( got != e ) lv.hit(c_shr, order, [=]{ return mk(to_s(e)); });
      return;
      }
    i128 p = static_cast<i128>(x) * (static_cast<i128>(1) << r);
    if( p >= FX_LOWEST && p <= FX_MAX ) { if( got != static_cast<i64>(p) ) lv.hit(c_shl_exact, order, [=]{ return mk(to_s128(p)); }); }
    else if( (x > 0 && got < 0) || (x < 0 && got > 0) ) lv.hit(c_shl_sign, order, [=]{ return mk("not of opposite sign to x (exact product " + to_s128(p) + " out of range)"); });
    }
  };
void explore18(Options const& o, std::vector<Shim*> const& shims, std::vector<Shim*> const&, Recorder& rec)
  {
  bool th = o.tier == "thorough";
  std::vector<i64> S = th ? S_set(8,6) : S_set(6,4);
  std::vector<i64> Sa = th ? S_set(5,3) : S_set(4,2);
  std::vector<i64> Sand = th ? S_set(5,3,true,true) : S_set(4,2,true,true);      // '&' is defined on all pairs of raw values, the NaN patterns and INT64_MIN included
  std::vector<int> R { INT32_MIN, INT32_MIN + 1, -65536, -65535, -(1<<30) };
  for( int r = -130; r <= 63; ++r ) R.push_back(r);
  std::vector<i64> X16 { 0, 1, -1, 65536, -65536, FX_MAX, FX_LOWEST, 0x5555555555555555ll, -0x5555555555555555ll, 1ll<<62, -(1ll<<62),
                         (1ll<<47)+12345, -(1ll<<47)-12345, 0x7fffffffffff0000ll, 3, -3 };
  rec.note("alphabet", "shifts: S |S|=" + std::to_string(S.size()) + " x " + std::to_string(R.size()) + " counts {INT_MIN, INT_MIN+1, -2^30, -65536, -65535, -130..63}"
           + (th ? "; plus EVERY count in [INT_MIN, 63] for 16 representative x" : "; plus every count in [-2^22, 63] for 16 representative x") + "; &: S^2 |S|=" + std::to_string(Sa.size()));
  C18 c(rec);
  for( size_t ci = 0; ci < shims.size(); ++ci )
    {
    Shim* s = shims[ci];
    u64 ob = static_cast<u64>(ci) << 56;
    for( int left = 0; left < 2; ++left )
      {
      parallel_blocks(S.size(), o.threads, [&](size_t i, int) {
        LocalViol lv(rec);
        for( size_t j = 0; j < R.size(); ++j )
          c.shift(s, left, S[i], R[j], s->fm_shift(left, S[i], R[j]), ob | (static_cast<u64>(left) << 48) | (i * R.size() + j), lv);
        // the inlined-in-a-loop form over the contiguous counts 0..63
        i64 out[64]; s->fm_shift_range(left, S[i], 0, 64, out);
        for( int r = 0; r < 64; ++r ) c.shift(s, left, S[i], r, out[r], ob | (static_cast<u64>(left) << 48) | (1ull << 40) | (i * 64 + static_cast<u64>(r)), lv);
        });
      u64 n = static_cast<u64>(S.size()) * (R.size() + 64); rec.add_states(n, n, n);
      // dense count ranges
      i64 r_lo = th ? static_cast<i64>(INT32_MIN) : -(1ll<<22);
      bool full = th && (ci % 6 == 0 || shims.size() <= 8);
      if( !full && th ) r_lo = -(1ll<<24);
      const i64 B = 1 << 16;
      i64 total = 63 - r_lo + 1;
      size_t nb = static_cast<size_t>((total + B - 1) / B);
      for( size_t xi = 0; xi < X16.size(); ++xi )
        {
        i64 x = X16[xi];
        parallel_blocks(nb, o.threads, [&](size_t blk, int) {
          LocalViol lv(rec);
          i64 r0 = r_lo + static_cast<i64>(blk) * B; size_t cnt = static_cast<size_t>(std::min<i64>(B, 63 - r0 + 1));
          std::vector<i64> out(cnt);
          s->fm_shift_range(left, x, static_cast<int>(r0), cnt, out.data());
          for( size_t k = 0; k < cnt; ++k ) c.shift(s, left, x, static_cast<int>(r0 + static_cast<i64>(k)), out[k], ob | (static_cast<u64>(left) << 48) | (2ull << 40) | (xi << 33) | (blk * B + k), lv);
          });
        rec.add_states(static_cast<u64>(total), static_cast<u64>(total), static_cast<u64>(total));
        }
      rec.count(std::string("dense_counts_from.") + s->name, static_cast<u64>(-r_lo));
      }
    // the count written with each integral type (no cast at the call site); counts restricted to the property's range [-2^31, 63]
    {
    std::vector<i64> const& Xt = Sa;
    for( int t : INT_TYPES )
      {
      std::vector<i64> cn;
      for( int r : R ) if( static_cast<i128>(r) >= t_min(t) && static_cast<i128>(r) <= t_max(t) ) cn.push_back(r);
      if( t_min(t) >= INT32_MIN && t_min(t) < 0 ) cn.push_back(static_cast<i64>(t_min(t)));
      std::sort(cn.begin(), cn.end()); cn.erase(std::unique(cn.begin(), cn.end()), cn.end());
      for( int left = 0; left < 2; ++left )
        {
        parallel_blocks(Xt.size(), o.threads, [&](size_t i, int) {
          LocalViol lv(rec); std::vector<i64> out(cn.size());
          s->fm_shift_typed(left, t, Xt[i], cn.data(), cn.size(), out.data());
          for( size_t j = 0; j < cn.size(); ++j )
            c.shift(s, left, Xt[i], static_cast<int>(cn[j]), out[j], ob | (static_cast<u64>(0x10 + t) << 48) | (static_cast<u64>(left) << 47) | (i * cn.size() + j), lv, t);
          });
        u64 n = static_cast<u64>(Xt.size()) * cn.size(); rec.add_states(n, n, n); rec.count("typed_count_states", n);
        }
      }
    }
    sweep_pairs(s, B_AND, Sand, Sand, o.threads, rec, ob | (3ull << 48), [&](i64 a, i64 b, i64 got, u64 ord, LocalViol& lv) {
      if( got != (a & b) ) lv.hit(c.c_and, ord, [=]{ return ex1(s, "operator &", "", {{"a",to_s(a)},{"b",to_s(b)}}, to_s(a & b), to_s(got), "and", {to_s(a), to_s(b)}); }); });
    }
  rec.sample("(-1 raw) >> 63 = " + to_s(shims[0]->fm_shift(0, -1, 63)) + "; (65536 raw) << 47 = " + to_s(shims[0]->fm_shift(1, 65536, 47)) + "; x << -1 = " + to_s(shims[0]->fm_shift(1, 5, -1)));
  }
void replay18(Options const& o, Shim* s, Recorder& rec)
  {
  C18 c(rec);
  DirectViol d{rec};
  if( o.rcase == "shift" )
    {
    int left = static_cast<int>(parse_i64(o.rin.at(0))); i64 x = parse_i64(o.rin.at(1)); int r = static_cast<int>(parse_i64(o.rin.at(2)));
    c.shift(s, left, x, r, s->fm_shift(left, x, r), 0, d);
    i64 out; s->fm_shift_range(left, x, r, 1, &out); c.shift(s, left, x, r, out, 0, d);
    }
  else if( o.rcase == "tshift" )
    {
    int left = static_cast<int>(parse_i64(o.rin.at(0))), t = static_cast<int>(parse_i64(o.rin.at(1))); i64 x = parse_i64(o.rin.at(2)), r = parse_i64(o.rin.at(3)), out = 0;
    s->fm_shift_typed(left, t, x, &r, 1, &out); c.shift(s, left, x, static_cast<int>(r), out, 0, d, t);
    }
  else { i64 a = parse_i64(o.rin.at(0)), b = parse_i64(o.rin.at(1)); i64 got = s->fm_bin(B_AND, a, b);
         if( got != (a & b) ) rec.viol(c.c_and, 0, [&]{ return ex1(s, "operator &", "", {{"a",to_s(a)},{"b",to_s(b)}}, to_s(a & b), to_s(got), o.rcase, o.rin); }); }
  rec.add_states(1,1,1);
  }
bool judge06(Shim* s, Recorder& rec, std::string const& kind, std::vector<u64> const& a, u64 value, u64 idx)
  {
  C06 c(rec); DirectViol d{rec};
  if( kind == "un" && a.size() == 2 && (a[0] == U_NEG || a[0] == U_ABS || a[0] == U_ISNAN) )
    { i64 x = static_cast<i64>(a[1]); if( a[0] == U_ISNAN ? (fx_finite(x) || fx_isnan(x)) : fx_finite(x) ) c.un(s, static_cast<int>(a[0]), x, static_cast<i64>(value), idx, d); return true; }
  if( kind == "bin" && a.size() == 3 )
    for( int k = 0; k < 6; ++k ) if( static_cast<int>(a[0]) == CMPS[k] ) { c.cmp(s, k, static_cast<i64>(a[1]), static_cast<i64>(a[2]), static_cast<i64>(value), idx, d); return true; }
  return false;
  }
bool judge15(Shim* s, Recorder& rec, std::string const& kind, std::vector<u64> const& a, u64 value, u64 idx)
  {
  C15 c(rec); DirectViol d{rec};
  if( kind == "un" && a.size() == 2 && (a[0] == U_FLOOR || a[0] == U_CEIL) )
    { i64 x = static_cast<i64>(a[1]); if( C15::in_domain(x) ) c.chk(s, static_cast<int>(a[0]), x, static_cast<i64>(value), idx, d); return true; }
  return false;
  }
bool judge18(Shim* s, Recorder& rec, std::string const& kind, std::vector<u64> const& a, u64 value, u64 idx)
  {
  C18 c(rec); DirectViol d{rec};
  if( kind == "shift" && a.size() == 3 )
    { i64 x = static_cast<i64>(a[1]); i64 r = static_cast<i64>(a[2]); if( fx_finite(x) && r >= INT32_MIN && r <= 63 ) c.shift(s, static_cast<int>(a[0]), x, static_cast<int>(r), static_cast<i64>(value), idx, d); return true; }
  if( kind == "bin" && a.size() == 3 && a[0] == B_AND )
    { i64 x = static_cast<i64>(a[1]), y = static_cast<i64>(a[2]), got = static_cast<i64>(value);
      if( got != (x & y) ) rec.viol(c.c_and, idx, [&]{ return ex1(s, "operator &", "", {{"a",to_s(x)},{"b",to_s(y)}}, to_s(x & y), to_s(got), "and", {}); });
      return true; }
  return false;
  }
}
REGISTER_PROPERTY(C06, explore06, replay06)
REGISTER_JUDGE(C06, judge06)
REGISTER_JUDGE(C15, judge15)
REGISTER_JUDGE(C18, judge18)
REGISTER_PROPERTY(C15, explore15, replay15)
REGISTER_PROPERTY(C18, explore18, replay18)
