// C01  Addition and subtraction are exact or NaN, however the call site is compiled.
// State = (operator, a, b, call-site shape, build configuration). Every state of the bounded
// space is executed on the real operators and compared with the exact 128-bit sum.
#include "common.h"

namespace {
const int OPS[4] = { B_ADD, B_SUB, B_ADDEQ, B_SUBEQ };
const char* OPN[4] = { "add", "sub", "addeq", "subeq" };
const char* KINDN[4] = { "vk", "kv", "self", "guarded" };
inline bool is_sub(int op) { return op == B_SUB || op == B_SUBEQ; }
inline const char* opname(int op) { for(int i=0;i<4;++i) if(OPS[i]==op) return OPN[i]; return "?"; }

struct Verdict { bool ok; bool overflow; i128 exact; };
inline Verdict oracle(int op, i64 a, i64 b, i64 got)
  {
  i128 s = is_sub(op) ? static_cast<i128>(a) - b : static_cast<i128>(a) + b;
  if( s >= FX_LOWEST && s <= FX_MAX ) return Verdict{ got == static_cast<i64>(s), false, s };
  return Verdict{ fx_isnan(got), true, s };
  }

struct Branches
  {
  u64 in_range{}, pos_over{}, neg_over{}, at_limit{}, sum_is_nan_raw{}, sum_is_int_min{};
  void see(Verdict const& v)
    {
    if( !v.overflow ) { ++in_range; if( v.exact == FX_MAX || v.exact == FX_LOWEST ) ++at_limit; }
    else { if( v.exact > 0 ) ++pos_over; else ++neg_over;
           if( v.exact == FX_NAN || v.exact == -static_cast<i128>(FX_NAN) ) ++sum_is_nan_raw;
           if( v.exact == static_cast<i128>(INT64_MIN) ) ++sum_is_int_min; }
    }
  void flush(Recorder& r)
    {
    r.count("branch.in_range", in_range); r.count("branch.positive_overflow", pos_over); r.count("branch.negative_overflow", neg_over);
    r.count("branch.exactly_at_limit", at_limit); r.count("branch.sum_equals_nan_pattern", sum_is_nan_raw); r.count("branch.sum_equals_int64_min", sum_is_int_min);
    }
  };

Example mk(Shim* s, std::string const& shape, int op, i64 a, i64 b, i64 got, Verdict const& v, std::string const& rcase, std::vector<std::string> rin)
  {
  Example e;
  e.entry = std::string("operator ") + opname(op); e.cfg = s->name; e.shape = shape;
  e.inputs = { {"a", to_s(a)}, {"b", to_s(b)} };
  e.expected = v.overflow ? "isnan (exact result " + to_s128(v.exact) + " is outside [lowest(),max()])" : to_s128(v.exact);
  e.got = to_s(got);
  e.rcase = rcase; e.rin = std::move(rin);
  return e;
  }

int cls_for(Recorder& rec, int op, const char* shape, int kind)
  {
  static const char* KN[3] = { ".in_range_wrong", ".overflow_not_nan", ".sum_int64_min_not_nan" };
  return rec.cls(std::string("C01.") + (is_sub(op) ? "sub" : "add") + "." + shape + KN[kind]);
  }
inline int vkind(Verdict const& v) { return !v.overflow ? 0 : v.exact == static_cast<i128>(INT64_MIN) ? 2 : 1; }

void explore(Options const& o, std::vector<Shim*> const& shims, std::vector<Shim*> const&, Recorder& rec)
  {
  bool thorough = o.tier == "thorough";
  std::vector<i64> S = merge_sets(thorough ? S_set(6,4) : S_set(4,2), D_set(thorough ? 1 : 0));       // + digit-pattern words
  std::vector<i64> Sbig = thorough ? S_set(9,6) : S_set(7,4);       // operand of the constant / self shapes
  std::vector<i64> Sg = thorough ? S_set(4,2) : S_set(3,1);          // pairs under caller-side guards
  rec.note("alphabet", "pairs S(" + std::string(thorough ? "6,4" : "4,2") + ")^2 |S|=" + std::to_string(S.size())
           + "; constant/self shapes over S(" + (thorough ? "9,6" : "7,4") + ") |S|=" + std::to_string(Sbig.size())
           + "; guarded shapes over S(" + (thorough ? "4,2" : "3,1") + ")^2 |S|=" + std::to_string(Sg.size())
           + "; plus, for every operand / constant, the partner that puts the exact result at max(), lowest(), +-NaN pattern, INT64_MIN and 0 (+-2); x += x and x -= x use the same object on both sides");
  // pre-register classes (deterministic ids)
  int cls[2][6][3];
  const char* shapes6[6] = { "vv", "loop", "vk", "kv", "self", "guarded" };
  for( int sub = 0; sub < 2; ++sub ) for( int k = 0; k < 6; ++k ) for( int ov = 0; ov < 3; ++ov )
    cls[sub][k][ov] = cls_for(rec, sub ? B_SUB : B_ADD, shapes6[k], ov);

  // operands directed at the boundaries of the oracle: for an operand b the partner a with a (+/-) b == T + d for every
  // target T in {max(), lowest(), the two NaN patterns, INT64_MIN, 0} and |d| <= 2
  const i128 TARGETS[6] = { FX_MAX, FX_LOWEST, static_cast<i128>(FX_NAN), -static_cast<i128>(FX_NAN), static_cast<i128>(INT64_MIN), 0 };
  auto directed = [&](int op, i64 fixed_operand, bool fixed_is_rhs, std::vector<i64>& out) {
    for( i128 T : TARGETS ) for( int d = -2; d <= 2; ++d )
      {
      i128 a;
      if( !is_sub(op) ) a = T + d - fixed_operand;                 // a + b == T + d   (either position)
      else if( fixed_is_rhs ) a = T + d + fixed_operand;          // a - b == T + d
      else a = static_cast<i128>(fixed_operand) - T - d;          // b - a == T + d  (a is the subtrahend)
      if( a >= FX_LOWEST && a <= FX_MAX ) out.push_back(static_cast<i64>(a));
      }
    };
  int c_scope = rec.cls("C01.isnan_or_comparison_of_fresh_result_wrong");
  for( size_t ci = 0; ci < shims.size(); ++ci )
    {
    Shim* s = shims[ci];
    // ---- vv (out-of-line) and loop (inlined into a loop) over S x S
    parallel_blocks(S.size(), o.threads, [&](size_t ia, int) {
      LocalViol lv(rec); Branches br; u64 n = 0;
      std::vector<i64> out(S.size());
      i64 a = S[ia];
      for( int oi = 0; oi < 4; ++oi )
        {
        int op = OPS[oi];
        s->fm_bin_row(op, a, S.data(), S.size(), out.data());
        for( size_t ib = 0; ib < S.size(); ++ib )
          {
          i64 b = S[ib];
          i64 g1 = out[ib];
          Verdict v = oracle(op, a, b, g1);
          br.see(v);
          u64 order = (static_cast<u64>(ci) << 56) | (static_cast<u64>(oi) << 52) | (ia * S.size() + ib);
          if( !v.ok ) lv.hit(cls[is_sub(op)][1][vkind(v)], order, [=]{ return mk(s, "loop", op, a, b, g1, v, "row", { to_s(op), to_s(a), to_s(b) }); });
          i64 g2 = s->fm_bin(op, a, b);
          Verdict v2 = oracle(op, a, b, g2);
          if( !v2.ok ) lv.hit(cls[is_sub(op)][0][vkind(v2)], order, [=]{ return mk(s, "vv", op, a, b, g2, v2, "vv", { to_s(op), to_s(a), to_s(b) }); });
          n += 2;
          }
        // directed partners of this a (a is the left operand, the enumerated partner the right one)
        std::vector<i64> part;
        for( i128 T : TARGETS ) for( int d = -2; d <= 2; ++d ) { i128 b = is_sub(op) ? static_cast<i128>(a) - T - d : T + d - a; if( b >= FX_LOWEST && b <= FX_MAX ) part.push_back(static_cast<i64>(b)); }
        // the partner whose magnitude is the bit-complement of |a| (|a| | |b| has all 63 bits set, no carries anywhere), both signs, +-1
        { i64 cm = FX_NAN ^ (a < 0 ? -a : a); for( int sg = 0; sg < 2; ++sg ) for( int d = -1; d <= 1; ++d ) { i128 b = static_cast<i128>(sg ? -cm : cm) + d; if( b >= FX_LOWEST && b <= FX_MAX ) part.push_back(static_cast<i64>(b)); } }
        std::vector<i64> pout(part.size());
        s->fm_bin_row(op, a, part.data(), part.size(), pout.data());
        for( size_t ib = 0; ib < part.size(); ++ib )
          {
          i64 b = part[ib];
          u64 order = (static_cast<u64>(ci) << 56) | (static_cast<u64>(oi) << 52) | (1ull << 50) | (ia * 64 + ib);
          Verdict v = oracle(op, a, b, pout[ib]); br.see(v);
          if( !v.ok ) { i64 g1 = pout[ib]; lv.hit(cls[is_sub(op)][1][vkind(v)], order, [=]{ return mk(s, "loop", op, a, b, g1, v, "row", { to_s(op), to_s(a), to_s(b) }); }); }
          i64 g2 = s->fm_bin(op, a, b); Verdict v2 = oracle(op, a, b, g2);
          if( !v2.ok ) lv.hit(cls[is_sub(op)][0][vkind(v2)], order, [=]{ return mk(s, "vv", op, a, b, g2, v2, "vv", { to_s(op), to_s(a), to_s(b) }); });
          // isnan() and comparisons of the fresh result evaluated in the scope of the operator must agree with the value it returns
          u64 gm = s->fm_bin_cmpmask(op, a, b), em = expected_cmpmask(s, g2);
          if( gm != em ) lv.hit(c_scope, order, [=]{ Example e = mk(s, "comparisons in the scope of the call", op, a, b, g2, v2, "mask", { to_s(op), to_s(a), to_s(b) }); e.expected = "comparison mask " + hex(em) + " (from the returned value)"; e.got = "mask " + hex(gm); return e; });
          n += 3;
          }
        }
      br.flush(rec);
      rec.add_states(n, n, n);
      });
    // ---- constant and self shapes, guarded shapes
    int ns = s->fm_shape_count();
    parallel_blocks(static_cast<size_t>(ns), o.threads, [&](size_t si, int) {
      LocalViol lv(rec); Branches br; u64 n = 0;
      fm_shape_info info; s->fm_shape_get(static_cast<int>(si), &info);
      std::string shape = std::string(KINDN[info.kind]) + (info.kind <= SH_KV ? "(k=" + to_s(info.k) + ")" : info.kind == SH_GUARD ? "(g" + std::to_string(info.guard) + ")" : "");
      int kslot = 2 + info.kind;
      auto actual = [&](i64 a, i64 b, i64& ea, i64& eb) {
        if( info.kind == SH_VK ) { ea = a; eb = info.k; } else if( info.kind == SH_KV ) { ea = info.k; eb = a; }
        else if( info.kind == SH_SELF ) { ea = a; eb = a; } else { ea = a; eb = b; } };
      auto check = [&](i64 a, i64 b, i64 got, const char* form, u64 order) {
        i64 ea, eb; actual(a, b, ea, eb);
        if( !fx_finite(ea) || !fx_finite(eb) ) return;
        Verdict v = oracle(info.op, ea, eb, got);
        br.see(v); ++n;
        if( !v.ok ) lv.hit(cls[is_sub(info.op)][kslot][vkind(v)], order, [=]{
          return mk(s, shape + "/" + form, info.op, ea, eb, got, v, "shape", { std::to_string(si), to_s(a), to_s(b) }); });
        };
      if( !info.uses_b )
        {
        std::vector<i64> out(Sbig.size());
        s->fm_shape_batch(static_cast<int>(si), Sbig.data(), Sbig.data(), Sbig.size(), out.data());
        for( size_t i = 0; i < Sbig.size(); ++i )
          {
          u64 order = (static_cast<u64>(ci) << 56) | (static_cast<u64>(si) << 40) | i;
          check(Sbig[i], 0, out[i], "loop", order);
          check(Sbig[i], 0, s->fm_shape_call(static_cast<int>(si), Sbig[i], 0), "call", order);
          }
        if( info.kind == SH_VK || info.kind == SH_KV )
          {   // the run-time operand that brings the exact result to every boundary of the oracle for THIS constant
          std::vector<i64> dir; directed(info.op, info.k, info.kind == SH_VK, dir);
          std::vector<i64> dout(dir.size());
          s->fm_shape_batch(static_cast<int>(si), dir.data(), dir.data(), dir.size(), dout.data());
          for( size_t i = 0; i < dir.size(); ++i )
            {
            u64 order = (static_cast<u64>(ci) << 56) | (static_cast<u64>(si) << 40) | (1ull << 39) | i;
            check(dir[i], 0, dout[i], "loop", order);
            check(dir[i], 0, s->fm_shape_call(static_cast<int>(si), dir[i], 0), "call", order);
            }
          }
        }
      else
        {
        std::vector<i64> arow(Sg.size()), out(Sg.size());
        for( size_t ia = 0; ia < Sg.size(); ++ia )
          {
          std::fill(arow.begin(), arow.end(), Sg[ia]);
          s->fm_shape_batch(static_cast<int>(si), arow.data(), Sg.data(), Sg.size(), out.data());
          for( size_t ib = 0; ib < Sg.size(); ++ib )
            {
            u64 order = (static_cast<u64>(ci) << 56) | (static_cast<u64>(si) << 40) | (ia * Sg.size() + ib);
            check(Sg[ia], Sg[ib], out[ib], "loop", order);
            check(Sg[ia], Sg[ib], s->fm_shape_call(static_cast<int>(si), Sg[ia], Sg[ib]), "call", order);
            }
          }
        }
      br.flush(rec);
      rec.add_states(n, n, n);
      });
    rec.count("shapes_per_config", static_cast<u64>(ns));
    }
  rec.sample("operator add, shape loop, cfg " + shims[0]->name + ": a=" + to_s(S[S.size()/3]) + " b=" + to_s(S[S.size()/2]) + " -> " + to_s(shims[0]->fm_bin(B_ADD, S[S.size()/3], S[S.size()/2])));
  rec.sample("operator sub, shape vk(k=max()), cfg " + shims.back()->name + ": a=-5 -> " + to_s(shims.back()->fm_bin(B_SUB, -5, FX_MAX)) + " (exact -2^63-3+... must be NaN)");
  rec.sample("operator addeq, shape vv: a=" + to_s(FX_MAX) + " b=1 -> " + to_s(shims[0]->fm_bin(B_ADDEQ, FX_MAX, 1)));
  }

void replay(Options const& o, Shim* s, Recorder& rec)
  {
  int c = rec.cls("C01.replay");
  auto report = [&](const char* shape, int op, i64 a, i64 b, i64 got) {
    Verdict v = oracle(op, a, b, got);
    rec.add_states(1,1,1);
    if( !v.ok ) rec.viol(c, 0, [&]{ return mk(s, shape, op, a, b, got, v, o.rcase, o.rin); });
    };
  if( o.rcase == "vv" || o.rcase == "row" )
    {
    int op = static_cast<int>(parse_i64(o.rin.at(0))); i64 a = parse_i64(o.rin.at(1)), b = parse_i64(o.rin.at(2));
    if( o.rcase == "vv" ) report("vv", op, a, b, s->fm_bin(op, a, b));
    else { i64 out; s->fm_bin_row(op, a, &b, 1, &out); report("loop", op, a, b, out);
           // the loop form is only meaningful with a real loop around it: replay inside a short row too
           std::vector<i64> bs { b, 0, 1, -1, b }, outs(5); s->fm_bin_row(op, a, bs.data(), 5, outs.data()); report("loop", op, a, b, outs[0]); report("loop", op, a, b, outs[4]); }
    }
  else if( o.rcase == "mask" )
    { int op = static_cast<int>(parse_i64(o.rin.at(0))); i64 a = parse_i64(o.rin.at(1)), b = parse_i64(o.rin.at(2)); i64 g = s->fm_bin(op, a, b); u64 gm = s->fm_bin_cmpmask(op, a, b), em = expected_cmpmask(s, g);
      rec.add_states(1,1,1);
      if( gm != em ) rec.viol(rec.cls("C01.isnan_or_comparison_of_fresh_result_wrong"), 0, [&]{ Verdict v = oracle(op, a, b, g); Example e = mk(s, "comparisons in the scope of the call", op, a, b, g, v, o.rcase, o.rin); e.expected = hex(em); e.got = hex(gm); return e; }); }
  else if( o.rcase == "shape" )
    {
    int si = static_cast<int>(parse_i64(o.rin.at(0))); i64 a = parse_i64(o.rin.at(1)), b = parse_i64(o.rin.at(2));
    fm_shape_info info; s->fm_shape_get(si, &info);
    i64 ea = a, eb = b;
    if( info.kind == SH_VK ) eb = info.k; else if( info.kind == SH_KV ) { ea = info.k; eb = a; } else if( info.kind == SH_SELF ) eb = a;
    report("shape/call", info.op, ea, eb, s->fm_shape_call(si, a, b));
    i64 out; s->fm_shape_batch(si, &a, &b, 1, &out);
    report("shape/loop", info.op, ea, eb, out);
    }
  }
bool judge01(Shim* s, Recorder& rec, std::string const& kind, std::vector<u64> const& a, u64 value, u64 idx)
  {
  i64 x, y; int op;
  if( kind == "bin" && a.size() == 3 && (a[0] == B_ADD || a[0] == B_SUB || a[0] == B_ADDEQ || a[0] == B_SUBEQ) ) { op = static_cast<int>(a[0]); x = static_cast<i64>(a[1]); y = static_cast<i64>(a[2]); }
  else if( kind == "un" && a.size() == 2 && (a[0] == U_ADDEQ_SELF || a[0] == U_SUBEQ_SELF) ) { op = a[0] == U_ADDEQ_SELF ? B_ADDEQ : B_SUBEQ; x = y = static_cast<i64>(a[1]); }
  else return false;
  if( !fx_finite(x) || !fx_finite(y) ) return true;      // outside the property's domain
  i64 got = static_cast<i64>(value);
  Verdict v = oracle(op, x, y, got);
  if( !v.ok ) rec.viol(cls_for(rec, op, "constexpr", vkind(v)), idx, [&]{ return mk(s, "constant evaluation", op, x, y, got, v, "judge", {}); });
  return true;
  }
}
REGISTER_PROPERTY(C01, explore, replay)
REGISTER_JUDGE(C01, judge01)
