#include "common.h"
#include <unistd.h>

double g_start = 0, g_deadline = 1e9;
Recorder* g_rec = nullptr;
thread_local sigjmp_buf* t_jmp = nullptr;

double now_s()
  {
  using namespace std::chrono;
  return duration<double>(steady_clock::now().time_since_epoch()).count();
  }

//------------------------------------------------------------------ shim
Shim* load_shim(std::string const& dir, std::string const& name)
  {
  Shim* s = new Shim;
  s->name = name;
  s->path = dir + "/" + name + ".so";
  s->handle = dlopen(s->path.c_str(), RTLD_NOW | RTLD_LOCAL);
  if( !s->handle ) { std::fprintf(stderr, "INTERNAL: dlopen %s: %s\n", s->path.c_str(), dlerror()); std::exit(2); }
#define X(ret,fn,args) s->fn = reinterpret_cast<ret(*)args>(dlsym(s->handle, #fn)); \
  if( !s->fn ) { std::fprintf(stderr, "INTERNAL: missing symbol %s in %s\n", #fn, s->path.c_str()); std::exit(2); }
  FM_API_LIST(X)
#undef X
  s->sqrt_algo = s->fm_probe_sqrt_algo();
  s->sanitized = name.rfind("ubsan-", 0) == 0;
  return s;
  }

//------------------------------------------------------------------ strings
std::string to_s(i64 v) { return std::to_string(static_cast<long long>(v)); }
std::string to_su(u64 v) { return std::to_string(static_cast<unsigned long long>(v)); }
std::string to_s128(i128 v)
  {
  if( v == 0 ) return "0";
  bool neg = v < 0;
  u128 u = neg ? -static_cast<u128>(v) : static_cast<u128>(v);
  std::string s;
  while( u ) { s.push_back(static_cast<char>('0' + static_cast<int>(u % 10))); u /= 10; }
  if( neg ) s.push_back('-');
  std::reverse(s.begin(), s.end());
  return s;
  }
std::string hex(u64 v) { char b[32]; std::snprintf(b, sizeof b, "0x%016llx", static_cast<unsigned long long>(v)); return b; }
std::string dbl_s(double d) { char b[64]; std::snprintf(b, sizeof b, "%a", d); return b; }
i64 parse_i64(std::string const& s) { return static_cast<i64>(std::strtoll(s.c_str(), nullptr, 0)); }
u64 parse_u64(std::string const& s)
  {
  if( !s.empty() && s[0] == '-' ) return static_cast<u64>(std::strtoll(s.c_str(), nullptr, 0));
  return static_cast<u64>(std::strtoull(s.c_str(), nullptr, 0));
  }

//------------------------------------------------------------------ alphabet
std::vector<i64> const& anchors()
  {
  static std::vector<i64> a = []{
    std::vector<i64> v { 0, 1, 65536, 32768, 0x7fffffffffff0000ll, FX_MAX,
      PHI2, 51472, 68629, 411775, 617662,                           // fixpidiv2, /4, /3, fixpi2, fixpi3
      28672, 45056, 77824, 159744,                                  // atan split points 7/16 11/16 19/16 39/16
      39321, 39322,                                                 // 0.6
      1ll<<30, 1ll<<45, 1ll<<46, 1ll<<47, 1ll<<48, 1ll<<31, 1ll<<32, 1ll<<62,
      (1ll<<31)-1, ((1ll<<31)-1)<<16, (1ll<<31)<<16, 16384ll<<16, 46340ll<<16, 46341ll<<16,
      5898240, 11796480, 17694720, 23592960, 1608, 2670177, 360ll<<16, 180ll<<16,
      3037000499ll, 3037000500ll, 1518500249ll, 1518500250ll, 4294967296ll, 6074000999ll };   // floor/ceil of sqrt(2^63), sqrt(2^61); sqrt(2^64); sqrt(2^65): where a square leaves the word
    for( int k = 1; k <= 8; ++k ) { v.push_back(PHI*k); v.push_back(PHI*k + PHI2); v.push_back(PHI2*k); }
    // the word limit divided by the library's own constants (where x * c leaves the word): INT64_MAX / c and 2^63 / c, +1
    for( i64 c : { 28672ll, 45056ll, 77824ll, 159744ll, 39321ll, 39322ll, 205887ll, 411774ll, 102944ll, 51472ll, 180ll, 360ll, 180ll << 16, 65536ll, 16ll, 39ll } )
      { v.push_back(INT64_MAX / c); v.push_back(INT64_MAX / c + 1); }
    std::vector<i64> r;
    for( i64 x : v ) { r.push_back(x); r.push_back(-x); }
    std::sort(r.begin(), r.end()); r.erase(std::unique(r.begin(), r.end()), r.end());
    return r; }();
  return a;
  }

std::vector<i64> S_set(int w, int r, bool with_nan, bool with_int_min)
  {
  std::vector<i64> out;
  auto add = [&](i128 v) { if( v >= FX_LOWEST && v <= FX_MAX ) out.push_back(static_cast<i64>(v)); };
  for( int e = 0; e <= 63; ++e )
    for( i64 m = 0; m < (1ll << w); ++m )
      {
      i128 base = static_cast<i128>(m) << e;
      if( base > (static_cast<i128>(1) << 63) ) continue;
      for( int d = -r; d <= r; ++d ) { add(base + d); add(-base + d); }
      }
  for( i64 a : anchors() ) for( int d = -r; d <= r; ++d ) add(static_cast<i128>(a) + d);
  // "rich" members: many significant bits spread over the whole word (alternating / nibble / byte patterns and
  // 53-bit mantissas of irrational constants) at every magnitude, both signs. They complement the few-bit shapes above.
  if( w >= 4 )
    for( u64 pat : { 0x5555555555555555ull, 0x3333333333333333ull, 0x0f0f0f0f0f0f0f0full, 0x00ff00ff00ff00ffull, 0x6db6db6db6db6db6ull,
                     0x6487ed5110b4611aull /* pi */, 0x5a827999fcef3242ull /* sqrt 2 */, 0x4f1bbcdcbfa53e0aull /* golden ratio */ } )
      for( int sh = 0; sh <= 62; sh += (w >= 6 ? 1 : 3) ) for( int d = (w >= 6 ? -2 : -1); d <= (w >= 6 ? 2 : 1); ++d ) { i128 v = static_cast<i128>(pat >> sh) + d; add(v); add(-v); }
  // multiples of 2^64 / q for small q (where a multiplication by q wraps modulo 2^64), +-2
  if( w >= 4 )
    for( int q : { 3, 5, 6, 7, 9, 10, 11, 12, 13, 15, 25, 45, 90, 100, 180, 360 } ) for( int k = 1; k < q && k <= (w >= 6 ? 12 : 4); ++k )
      { u128 v = (static_cast<u128>(1) << 64) * static_cast<u128>(k) / static_cast<u128>(q); if( v >= (static_cast<u128>(1) << 63) ) break;
        for( int d = (w >= 6 ? -2 : -1); d <= (w >= 6 ? 2 : 1); ++d ) { add(static_cast<i128>(v) + d); add(-static_cast<i128>(v) + d); } }
  if( with_nan ) { out.push_back(FX_NAN); out.push_back(-FX_NAN); }
  if( with_int_min ) out.push_back(INT64_MIN);
  std::sort(out.begin(), out.end());
  out.erase(std::unique(out.begin(), out.end()), out.end());
  return out;
  }

std::vector<i64> S2_set(int w, bool with_nan)
  {
  std::vector<i64> out;
  for( int e1 = 1; e1 <= 62; ++e1 ) for( int e2 = 0; e2 + w <= e1; ++e2 ) for( i64 m1 = 1; m1 < (1ll << w); ++m1 ) for( i64 m2 = 1; m2 < (1ll << w); ++m2 )
    {
    i128 v = (static_cast<i128>(m1) << e1) | (static_cast<i128>(m2) << e2);
    if( v > FX_MAX ) continue;
    out.push_back(static_cast<i64>(v)); out.push_back(-static_cast<i64>(v));
    }
  if( with_nan ) { out.push_back(FX_NAN); out.push_back(-FX_NAN); }
  std::sort(out.begin(), out.end()); out.erase(std::unique(out.begin(), out.end()), out.end());
  return out;
  }
std::vector<i64> D_set(int level, bool with_nan)
  {
  std::vector<i64> out;
  auto compose = [&](int bits, std::vector<u64> const& digs) {
    int nd = 64 / bits; size_t n = digs.size(), tot = 1; for( int i = 0; i < nd; ++i ) tot *= n;
    for( size_t k = 0; k < tot; ++k )
      {
      u64 v = 0; size_t kk = k;
      for( int i = 0; i < nd; ++i ) { v |= digs[kk % n] << (i * bits); kk /= n; }
      i64 s = static_cast<i64>(v);
      if( s == INT64_MIN ) continue;
      if( s >= FX_LOWEST && s <= FX_MAX ) { out.push_back(s); out.push_back(-s); }
      }
    };
  compose(32, { 0, 1, 2, 3, 0x7ffffffeull, 0x7fffffffull, 0x80000000ull, 0x80000001ull, 0xfffffffeull, 0xffffffffull, 0x55555555ull, 0xaaaaaaaaull, 0xffffull, 0x10000ull, 0xffff0000ull, 0x10001ull });
  if( level == 1 ) compose(16, { 0, 1, 0x7fff, 0x8000, 0xfffe, 0xffff });
  if( level >= 2 ) compose(16, { 0, 1, 2, 0x7fff, 0x8000, 0x8001, 0xfffe, 0xffff });
  if( with_nan ) { out.push_back(FX_NAN); out.push_back(-FX_NAN); }
  std::sort(out.begin(), out.end()); out.erase(std::unique(out.begin(), out.end()), out.end());
  return out;
  }
std::vector<i64> merge_sets(std::vector<i64> a, std::vector<i64> const& b)
  {
  a.insert(a.end(), b.begin(), b.end());
  std::sort(a.begin(), a.end()); a.erase(std::unique(a.begin(), a.end()), a.end());
  return a;
  }

std::vector<i64> const& history_seeds()
  {
  static const std::vector<i64> v { 0, 1, 65536, 9 * 65536, 589824 + 1, 98304, 39322, 51472, 102944, 205887, 411774, 1 << 20, 0x12345, 0x7fff, 0xffff, 0xffffffffll, 0x100000000ll, 0x123456789all, (1ll << 40) + 7,
                                    (1ll << 46) + 0x9000, 0x7fffffffffffll, 1ll << 47, 0x5555555555555555ll, FX_MAX,
                                    -1, -65536, -39322, -205887, -0x12345, -0x123456789all, -(1ll << 46) - 0x9000, FX_LOWEST };
  return v;
  }
std::vector<i64> alias_args(i64 a, i64 lo, i64 hi)
  {
  std::vector<i64> out;
  auto add = [&](i128 v) { if( v >= lo && v <= hi && v >= FX_LOWEST && v <= FX_MAX ) out.push_back(static_cast<i64>(v)); };
  add(a); add(-static_cast<i128>(a));
  for( int k = 0; k <= 62; ++k )
    {
    i128 p = static_cast<i128>(1) << k;
    for( i128 j : { static_cast<i128>(1), static_cast<i128>(-1), static_cast<i128>(2), static_cast<i128>(-3), static_cast<i128>(0x1234), static_cast<i128>(-0x4321) } ) add(a + j * p);   // equal modulo 2^k
    u64 low = (k == 0) ? 0 : ((1ull << k) - 1);
    u64 ua = static_cast<u64>(a);
    add(static_cast<i64>(ua ^ low)); add(static_cast<i64>(ua & ~low)); add(static_cast<i64>((ua & ~low) | (0x5555555555555555ull & low)));    // equal above bit k
    }
  std::sort(out.begin(), out.end()); out.erase(std::unique(out.begin(), out.end()), out.end());
  return out;
  }
std::vector<i64> filter_abs_below(std::vector<i64> const& v, i64 bound)
  {
  std::vector<i64> r;
  for( i64 x : v ) if( x < bound && x > -bound ) r.push_back(x);
  return r;
  }

//------------------------------------------------------------------ parallel
void parallel_blocks(size_t nblocks, int threads, std::function<void(size_t, int)> const& fn)
  {
  std::atomic<size_t> next {0};
  auto worker = [&](int tid) {
    for(;;)
      {
      size_t b = next.fetch_add(1);
      if( b >= nblocks ) break;
      // last line of defence: a trap that no inner guard caught is still a verdict about the code under test, not a crash of the checker
      int sig = guarded([&]{ fn(b, tid); });
      if( sig && g_rec )
        g_rec->viol(g_rec->cls(g_rec->prop_id + ".trap_in_unguarded_sweep"), static_cast<u64>(b), [&]{ Example e; e.entry = "implementation call inside enumeration block " + std::to_string(b); e.expected = "returns normally";
          e.got = "killed by signal " + std::to_string(sig) + " (the rest of this block was skipped)"; return e; });
      }
    };
  if( threads <= 1 ) { worker(0); return; }
  std::vector<std::thread> ts;
  for( int t = 0; t < threads; ++t ) ts.emplace_back(worker, t);
  for( auto& t : ts ) t.join();
  }

//------------------------------------------------------------------ traps
static void trap_handler(int sig)
  {
  if( t_jmp ) siglongjmp(*t_jmp, sig);
  // a trap outside a guarded region is a bug of the checker itself
  const char msg[] = "INTERNAL: unguarded fatal signal in explorer\n";
  ssize_t ignored = write(2, msg, sizeof msg - 1); (void)ignored;
  _exit(2);
  }
void install_trap_handlers()
  {
  struct sigaction sa;
  std::memset(&sa, 0, sizeof sa);
  sa.sa_handler = trap_handler;
  sa.sa_flags = SA_NODEFER;
  sigemptyset(&sa.sa_mask);
  for( int s : { SIGFPE, SIGSEGV, SIGABRT, SIGILL, SIGBUS } ) sigaction(s, &sa, nullptr);
  }

//------------------------------------------------------------------ recorder
int Recorder::cls(std::string const& name)
  {
  std::lock_guard<std::mutex> g(m_);
  for( size_t i = 0; i < classes_.size(); ++i ) if( classes_[i].name == name ) return static_cast<int>(i);
  classes_.push_back(ClassRec{name, 0, {}});
  return static_cast<int>(classes_.size() - 1);
  }
void Recorder::viol(int c, u64 order, std::function<Example()> const& make)
  {
  Example e = make();
  e.order = order;
  std::lock_guard<std::mutex> g(m_);
  ClassRec& cr = classes_[static_cast<size_t>(c)];
  cr.count += 1;
  cr.ex.push_back(std::move(e));
  std::sort(cr.ex.begin(), cr.ex.end(), [](Example const& a, Example const& b){ return a.order < b.order; });
  if( cr.ex.size() > 3 ) cr.ex.resize(3);
  }
LocalViol::~LocalViol()
  {
  for( auto& kv : slots )
    {
    Slot& s = kv.second;
    if( !s.count ) continue;
    rec.viol(kv.first, s.best_order, s.make);
    if( s.count > 1 ) rec.count("__viol_extra__" + std::to_string(kv.first), s.count - 1);
    }
  }
u64 Recorder::violations() const
  {
  std::lock_guard<std::mutex> g(m_);
  u64 n = 0;
  for( size_t i = 0; i < classes_.size(); ++i )
    {
    n += classes_[i].count;
    auto it = stats_.find("__viol_extra__" + std::to_string(i));
    if( it != stats_.end() ) n += it->second;
    }
  return n;
  }

static std::string jesc(std::string const& s)
  {
  std::string o;
  for( char c : s )
    {
    if( c == '"' || c == '\\' ) { o.push_back('\\'); o.push_back(c); }
    else if( c == '\n' ) o += "\\n";
    else if( static_cast<unsigned char>(c) < 0x20 ) { char b[8]; std::snprintf(b, sizeof b, "\\u%04x", c); o += b; }
    else o.push_back(c);
    }
  return o;
  }

void Recorder::write_json(FILE* f, Options const& o, double wall) const
  {
  std::lock_guard<std::mutex> g(m_);
  std::fprintf(f, "{\n \"property\": \"%s\",\n \"tier\": \"%s\",\n \"wall_s\": %.3f,\n", o.prop.c_str(), o.tier.c_str(), wall);
  std::fprintf(f, " \"states\": %llu,\n \"transitions\": %llu,\n \"compared\": %llu,\n \"exhaustive\": %s,\n",
    static_cast<unsigned long long>(states_.load()), static_cast<unsigned long long>(transitions_.load()),
    static_cast<unsigned long long>(compared_.load()), exhaustive_ ? "true" : "false");
  std::fprintf(f, " \"distinct_outcomes\": %zu,\n", outcomes_.size());
  std::fprintf(f, " \"caps\": [");
  for( size_t i = 0; i < caps_.size(); ++i ) std::fprintf(f, "%s\"%s\"", i ? ", " : "", jesc(caps_[i]).c_str());
  std::fprintf(f, "],\n \"configs\": [");
  for( size_t i = 0; i < o.cfgs.size(); ++i ) std::fprintf(f, "%s\"%s\"", i ? ", " : "", jesc(o.cfgs[i]).c_str());
  std::fprintf(f, "],\n \"san_configs\": [");
  for( size_t i = 0; i < o.san_cfgs.size(); ++i ) std::fprintf(f, "%s\"%s\"", i ? ", " : "", jesc(o.san_cfgs[i]).c_str());
  std::fprintf(f, "],\n \"notes\": {");
  { bool first = true; for( auto& kv : notes_ ) { std::fprintf(f, "%s\n  \"%s\": \"%s\"", first ? "" : ",", jesc(kv.first).c_str(), jesc(kv.second).c_str()); first = false; } }
  std::fprintf(f, "\n },\n \"stats\": {");
  { bool first = true; for( auto& kv : stats_ ) { if( kv.first.rfind("__viol_extra__", 0) == 0 ) continue;
      std::fprintf(f, "%s\n  \"%s\": %llu", first ? "" : ",", jesc(kv.first).c_str(), static_cast<unsigned long long>(kv.second)); first = false; } }
  std::fprintf(f, "\n },\n \"samples\": [");
  for( size_t i = 0; i < samples_.size(); ++i ) std::fprintf(f, "%s\n  \"%s\"", i ? "," : "", jesc(samples_[i]).c_str());
  std::fprintf(f, "\n ],\n \"violation_classes\": [");
  bool firstc = true;
  for( size_t i = 0; i < classes_.size(); ++i )
    {
    ClassRec const& c = classes_[i];
    u64 n = c.count;
    auto it = stats_.find("__viol_extra__" + std::to_string(i));
    if( it != stats_.end() ) n += it->second;
    if( !n ) continue;
    std::fprintf(f, "%s\n  {\"class\": \"%s\", \"count\": %llu, \"examples\": [", firstc ? "" : ",", jesc(c.name).c_str(), static_cast<unsigned long long>(n));
    firstc = false;
    for( size_t k = 0; k < c.ex.size(); ++k )
      {
      Example const& e = c.ex[k];
      std::fprintf(f, "%s\n   {\"entry\": \"%s\", \"cfg\": \"%s\", \"shape\": \"%s\", \"expected\": \"%s\", \"got\": \"%s\", \"note\": \"%s\", \"rcase\": \"%s\", \"order\": %llu, \"inputs\": {",
        k ? "," : "", jesc(e.entry).c_str(), jesc(e.cfg).c_str(), jesc(e.shape).c_str(), jesc(e.expected).c_str(), jesc(e.got).c_str(),
        jesc(e.note).c_str(), jesc(e.rcase).c_str(), static_cast<unsigned long long>(e.order));
      for( size_t j = 0; j < e.inputs.size(); ++j )
        std::fprintf(f, "%s\"%s\": \"%s\"", j ? ", " : "", jesc(e.inputs[j].first).c_str(), jesc(e.inputs[j].second).c_str());
      std::fprintf(f, "}, \"rin\": [");
      for( size_t j = 0; j < e.rin.size(); ++j ) std::fprintf(f, "%s\"%s\"", j ? ", " : "", jesc(e.rin[j]).c_str());
      std::fprintf(f, "]}");
      }
    std::fprintf(f, "\n  ]}");
    }
  std::fprintf(f, "\n ]\n}\n");
  }

//------------------------------------------------------------------ main
static std::vector<PropertyDef>& registry() { static std::vector<PropertyDef> r; return r; }
void register_property(PropertyDef const& d) { registry().push_back(d); }
static std::map<std::string,judge_fn>& judges() { static std::map<std::string,judge_fn> r; return r; }
void register_judge(const char* id, judge_fn fn) { judges()[id] = fn; }

static std::vector<std::string> split(std::string const& s, char c)
  {
  std::vector<std::string> r; std::string cur;
  for( char ch : s ) { if( ch == c ) { if( !cur.empty() ) r.push_back(cur); cur.clear(); } else cur.push_back(ch); }
  if( !cur.empty() ) r.push_back(cur);
  return r;
  }

int main(int argc, char** argv)
  {
  Options o;
  for( int i = 1; i < argc; ++i )
    {
    std::string a = argv[i];
    auto next = [&]() -> std::string { if( i + 1 >= argc ) { std::fprintf(stderr, "missing value for %s\n", a.c_str()); std::exit(2); } return argv[++i]; };
    if( a == "--tier" ) o.tier = next();
    else if( a == "--shims" ) o.shim_dir = next();
    else if( a == "--cfgs" ) o.cfgs = split(next(), ',');
    else if( a == "--san" ) o.san_cfgs = split(next(), ',');
    else if( a == "--probes" ) o.probes = split(next(), ',');
    else if( a == "--out" ) o.out = next();
    else if( a == "--threads" ) o.threads = std::atoi(next().c_str());
    else if( a == "--deadline" ) o.deadline_s = std::atof(next().c_str());
    else if( a == "--judge" ) o.judge_file = next();
    else if( a == "--replay" ) { o.replay = true; o.rcase = next(); o.rcfg = next(); while( i + 1 < argc ) o.rin.push_back(argv[++i]); }
    else if( o.prop.empty() ) o.prop = a;
    else { std::fprintf(stderr, "unknown argument %s\n", a.c_str()); return 2; }
    }
  PropertyDef const* def = nullptr;
  for( auto& d : registry() ) if( o.prop == d.id ) def = &d;
  if( !def ) { std::fprintf(stderr, "unknown property '%s'\n", o.prop.c_str()); return 2; }
  g_start = now_s();
  g_deadline = o.deadline_s;
  install_trap_handlers();
  Recorder rec;
  rec.prop_id = o.prop;
  g_rec = &rec;
  if( !o.judge_file.empty() )
    {   // lines: <idx> <kind> <nargs> <arg>... <value>   (unsigned decimal 64-bit words)
    auto it = judges().find(o.prop);
    if( it == judges().end() ) { std::fprintf(stderr, "INTERNAL: property %s has no pointwise judge\n", o.prop.c_str()); return 2; }
    Shim* s = load_shim(o.shim_dir, o.cfgs.at(0));
    FILE* in = std::fopen(o.judge_file.c_str(), "r");
    if( !in ) { std::fprintf(stderr, "cannot read %s\n", o.judge_file.c_str()); return 2; }
    char kind[64]; unsigned long long idx, v; int na; u64 n = 0, unhandled = 0;
    while( std::fscanf(in, "%llu %63s %d", &idx, kind, &na) == 3 )
      {
      std::vector<u64> a(static_cast<size_t>(na));
      for( int i = 0; i < na; ++i ) { unsigned long long t; if( std::fscanf(in, "%llu", &t) != 1 ) { std::fprintf(stderr, "INTERNAL: malformed judge file\n"); return 2; } a[static_cast<size_t>(i)] = t; }
      if( std::fscanf(in, "%llu", &v) != 1 ) { std::fprintf(stderr, "INTERNAL: malformed judge file\n"); return 2; }
      bool handled = false;
      int sg = guarded([&]{ handled = it->second(s, rec, kind, a, v, idx); });
      if( sg ) { std::fprintf(stderr, "INTERNAL: judge trapped on %s\n", kind); return 2; }
      if( !handled ) { ++unhandled; if( unhandled <= 3 ) std::fprintf(stderr, "unjudged: %s/%d\n", kind, na); }
      ++n;
      }
    std::fclose(in);
    rec.add_states(n, n, n - unhandled); rec.count("judge.items", n); rec.count("judge.unhandled", unhandled);
    FILE* f = o.out.empty() ? stdout : std::fopen(o.out.c_str(), "w");
    if( !f ) { std::fprintf(stderr, "cannot write %s\n", o.out.c_str()); return 2; }
    rec.write_json(f, o, now_s() - g_start);
    if( f != stdout ) std::fclose(f);
    return unhandled ? 2 : (rec.violations() ? 1 : 0);
    }
  if( o.replay )
    {
    Shim* s = o.rcfg.rfind("probe-", 0) == 0 ? nullptr : load_shim(o.shim_dir, o.rcfg);
    if( o.rcase == "trap_un" || o.rcase == "trap_bin" )
      {   // generic replay of a trap recorded by a sweep helper
      int op = static_cast<int>(parse_i64(o.rin.at(0))); i64 a = parse_i64(o.rin.at(1)), b = parse_i64(o.rin.at(2));
      int sg = guarded([&]{ if( o.rcase == "trap_un" ) s->fm_un(op, a); else s->fm_bin(op, a, b); });
      rec.add_states(1,1,1);
      if( sg ) rec.viol(rec.cls(o.prop + ".trap"), 0, [&]{ Example e; e.entry = "entry point #" + std::to_string(op); e.cfg = o.rcfg; e.expected = "returns normally"; e.got = "killed by signal " + std::to_string(sg); e.rcase = o.rcase; e.rin = o.rin; return e; });
      }
    else if( o.rcase == "althist" )
      {   // two-call history: the first call, then the property's own replay of the second call on the same thread
      int op = static_cast<int>(parse_i64(o.rin.at(0))); i64 a = parse_i64(o.rin.at(1));
      Options o2 = o; o2.rcase = o.rin.at(2); o2.rin.assign(o.rin.begin() + 3, o.rin.end());
      guarded([&]{ s->fm_un(op, a); });
      def->replay(o2, s, rec);
      }
    else
    def->replay(o, s, rec);
    rec.write_json(stdout, o, now_s() - g_start);
    return rec.violations() ? 1 : 0;
    }
  std::vector<Shim*> shims, san;
  for( auto& c : o.cfgs ) shims.push_back(load_shim(o.shim_dir, c));
  for( auto& c : o.san_cfgs ) san.push_back(load_shim(o.shim_dir, c));
  def->explore(o, shims, san, rec);
  double wall = now_s() - g_start;
  FILE* f = o.out.empty() ? stdout : std::fopen(o.out.c_str(), "w");
  if( !f ) { std::fprintf(stderr, "cannot write %s\n", o.out.c_str()); return 2; }
  rec.write_json(f, o, wall);
  if( f != stdout ) std::fclose(f);
  return rec.violations() ? 1 : 0;
  }
