// Reference values in 113-bit precision (libquadmath) turned into exact integer acceptance intervals.
#pragma once
#include "common.h"
#include <quadmath.h>
typedef __float128 q128;

inline q128 Q(i64 raw) { return static_cast<q128>(raw) / 65536; }
inline q128 qpi() { return M_PIq; }
inline std::string q_s(q128 v) { char b[64]; quadmath_snprintf(b, sizeof b, "%.20Qg", v); return b; }

// Acceptance interval of raw results v with | v/65536 - ref | <= bound, as integers [lo, hi].
// 'undecided' is incremented when an end point is within 2^-40 raw units of an integer (never observed; reported in evidence).
struct Interval { i64 lo, hi; };
inline Interval accept_interval(q128 ref, q128 bound, u64* undecided = nullptr)
  {
  q128 a = (ref - bound) * 65536, b = (ref + bound) * 65536;
  const q128 big = 9.2e18Q;
  if( a < -big ) a = -big;
  if( b > big ) b = big;
  const q128 eps = 0x1p-40Q;
  q128 lo = ceilq(a - eps), hi = floorq(b + eps);      // a borderline end point is accepted (never a false alarm) and counted
  if( undecided && (fabsq(a - roundq(a)) < eps || fabsq(b - roundq(b)) < eps) ) ++*undecided;
  return Interval{ static_cast<i64>(lo), static_cast<i64>(hi) };
  }
