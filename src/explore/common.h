// Common infrastructure of the explorer: shim loading, the S(w,r) input alphabet, a block-parallel
// driver, violation recording with deterministic minimal examples, trap guard, JSON output.
// The explorer never includes anything from /repo: the oracle is independent of the code under test.
#pragma once
#include <cstdint>
#include <cstdio>
#include <cstdlib>
#include <cstring>
#include <cmath>
#include <string>
#include <vector>
#include <map>
#include <set>
#include <mutex>
#include <atomic>
#include <thread>
#include <functional>
#include <algorithm>
#include <chrono>
#include <csetjmp>
#include <csignal>
#include <dlfcn.h>
#include "../shim/api.h"

typedef __int128 i128;
typedef unsigned __int128 u128;

constexpr i64 FX_NAN = 0x7fffffffffffffffll;
constexpr i64 FX_MAX = 0x7ffffffffffffffell;      // numeric_limits<fixed_t>::max()
constexpr i64 FX_LOWEST = -0x7ffffffffffffffell;  // numeric_limits<fixed_t>::lowest()
constexpr i64 PHI = 205887;                       // library pi
constexpr i64 PHI2 = 102944;                      // fixpidiv2 (the library's pi/2 constant)
inline bool fx_isnan(i64 v) { return v == FX_NAN || v == -FX_NAN; }
inline bool fx_finite(i64 v) { return v >= FX_LOWEST && v <= FX_MAX; }

//------------------------------------------------------------------ shim
struct Shim
  {
  std::string name, path;
  void* handle {};
  int sqrt_algo {};        // 1 abacus, 2 std (probed)
  bool sanitized {};
#define X(ret,fn,args) ret (*fn) args {};
  FM_API_LIST(X)
#undef X
  };
Shim* load_shim(std::string const& dir, std::string const& name);

//------------------------------------------------------------------ options / context
struct Options
  {
  std::string prop, tier {"quick"}, shim_dir, out;
  std::vector<std::string> cfgs, san_cfgs, probes;       // normal, sanitized and index-probe shim names
  int threads {16};
  double deadline_s {1e9};
  // replay
  std::string judge_file;              // --judge: pointwise verdicts on externally supplied (constant-evaluated) results
  bool replay {};
  std::string rcase, rcfg;
  std::vector<std::string> rin;
  };

//------------------------------------------------------------------ recorder
struct Example
  {
  std::string entry, cfg, shape, expected, got, note;
  std::vector<std::pair<std::string,std::string>> inputs;   // name -> value (decimal)
  std::string rcase;                  // sub-check name understood by the property's replay function
  std::vector<std::string> rin;       // replay inputs
  u64 order {};                       // deterministic position in the enumeration
  };

class Recorder
  {
public:
  int cls(std::string const& name);                    // register / look up a violation class
  void viol(int cls, u64 order, std::function<Example()> const& make);
  void count(std::string const& key, u64 n) { std::lock_guard<std::mutex> g(m_); stats_[key] += n; }
  void sample(std::string const& s) { std::lock_guard<std::mutex> g(m_); if(samples_.size() < 12) samples_.push_back(s); }
  void note(std::string const& k, std::string const& v) { std::lock_guard<std::mutex> g(m_); notes_[k] = v; }
  void add_states(u64 s, u64 t, u64 c) { states_ += s; transitions_ += t; compared_ += c; }
  void outcome(u64 h) { std::lock_guard<std::mutex> g(m_); if(outcomes_.size() < (1u<<20)) outcomes_.insert(h); }
  void set_exhaustive(bool e) { exhaustive_ = e; }
  std::string prop_id;                 // set by main(); used for the generic '<id>.trap' class of the sweep helpers
  void cap(std::string const& c) { std::lock_guard<std::mutex> g(m_); caps_.push_back(c); exhaustive_ = false; }
  u64 violations() const;
  void write_json(FILE* f, Options const& o, double wall) const;
  std::atomic<u64> states_{0}, transitions_{0}, compared_{0};
private:
  struct ClassRec { std::string name; u64 count {}; std::vector<Example> ex; };
  mutable std::mutex m_;
  std::vector<ClassRec> classes_;
  std::map<std::string,u64> stats_;
  std::map<std::string,std::string> notes_;
  std::vector<std::string> samples_, caps_;
  std::set<u64> outcomes_;
  bool exhaustive_ {true};
  };

// per-thread cheap counter of violations so that hot loops do not take the mutex for every hit
struct LocalViol
  {
  Recorder& rec;
  struct Slot { u64 count {}; u64 best_order {~0ull}; std::function<Example()> make; };
  std::map<int,Slot> slots;
  explicit LocalViol(Recorder& r) : rec(r) {}
  template<typename F> void hit(int cls, u64 order, F && make)
    {
    Slot& s = slots[cls];
    ++s.count;
    if( order < s.best_order ) { s.best_order = order; s.make = std::forward<F>(make); }
    }
  ~LocalViol();
  };

// same interface, immediate recording (used by replay)
struct DirectViol { Recorder& r; template<typename F> void hit(int cl, u64 ord, F && f) { r.viol(cl, ord, f); } };

//------------------------------------------------------------------ parallel
void parallel_blocks(size_t nblocks, int threads, std::function<void(size_t blk, int tid)> const& fn);
double now_s();
extern double g_start, g_deadline;
class Recorder; extern Recorder* g_rec;
inline bool past_deadline() { return now_s() - g_start > g_deadline; }

//------------------------------------------------------------------ alphabet
// S(w,r) = { +-(m * 2^e) + d : 0 <= m < 2^w, 0 <= e <= 63, |d| <= r } intersected with the finite raw values,
// united with (anchors + d). Sorted, unique.
std::vector<i64> S_set(int w, int r, bool with_nan = false, bool with_int_min = false);
std::vector<i64> const& anchors();
// two-cluster values +-((m1 << e1) | (m2 << e2)), 1 <= m1, m2 < 2^w, e1 > e2 + w: two separated groups of significant bits (for unary sweeps only)
std::vector<i64> S2_set(int w, bool with_nan = false);
std::vector<i64> merge_sets(std::vector<i64> a, std::vector<i64> const& b);
// D(level): "digit pattern" words, the classical multi-precision corner alphabet: every 64-bit word whose 16-bit digits (and,
// separately, whose 32-bit digits) are drawn from {0, 1, 2, half-1, half, half+1, max-1, max, ...}, both signs. They reach the
// quotient-digit-estimate, carry and cross-term corners of limb-wise multiply/divide code that few-bit shapes do not.
// level 0: 32-bit digits only (small); 1: plus 16-bit digits from 6 values; 2: 16-bit digits from 8 values.
std::vector<i64> D_set(int level, bool with_nan = false);
std::vector<i64> filter_abs_below(std::vector<i64> const& v, i64 bound);   // |x| < bound
std::string to_s(i64 v);
std::string to_su(u64 v);
std::string to_s128(i128 v);
std::string hex(u64 v);
std::string dbl_s(double d);

//------------------------------------------------------------------ trap guard
// Runs f(); returns 0 when it returned normally, otherwise the signal number (SIGFPE, SIGSEGV, SIGABRT, SIGILL, SIGBUS).
void install_trap_handlers();
extern thread_local sigjmp_buf* t_jmp;
template<typename F> int guarded(F && f)
  {
  sigjmp_buf buf;
  sigjmp_buf* prev = t_jmp;
  int sig = sigsetjmp(buf, 0);
  if( sig == 0 )
    {
    t_jmp = &buf;
    f();
    t_jmp = prev;
    return 0;
    }
  t_jmp = prev;
  return sig;
  }

//------------------------------------------------------------------ property entry points
typedef void (*explore_fn)(Options const&, std::vector<Shim*> const& shims, std::vector<Shim*> const& san, Recorder&);
typedef void (*replay_fn)(Options const&, Shim*, Recorder&);
struct PropertyDef { const char* id; explore_fn explore; replay_fn replay; };
void register_property(PropertyDef const& d);
#define REGISTER_PROPERTY(ID, EXPLORE, REPLAY) \
  static struct Reg_##ID { Reg_##ID() { register_property(PropertyDef{#ID, EXPLORE, REPLAY}); } } reg_##ID##_instance;

// Pointwise judge: the property's own oracle applied to a result that was NOT obtained from a run-time shim (the compiler's
// constant evaluator produced it). kind/args name the call exactly like the driver's run-time tuples:
//   un(op,a) bin(op,a,b) shift(left,a,r) from_int(how,t,bits) to_int(how,t,a) from_fp(how,t,bits) to_fp(how,t,a)
//   mixed(op,t,order,a,bits) a2r(t,bits) xangle(fn,t,bits) angle_aprox(cosine,d)
// Returns false when the property has no pointwise clause for that call (the driver treats that as its own error).
// 's' is the run-time shim of the same configuration: used for labels and for helper values the property delegates
// to another property (e.g. double(a) in C16), never for the judged call itself.
typedef bool (*judge_fn)(Shim* s, Recorder& rec, std::string const& kind, std::vector<u64> const& a, u64 value, u64 idx);
void register_judge(const char* id, judge_fn fn);
#define REGISTER_JUDGE(ID, FN) static struct RegJ_##ID { RegJ_##ID() { register_judge(#ID, FN); } } regj_##ID##_instance;

i64 parse_i64(std::string const& s);
u64 parse_u64(std::string const& s);

//------------------------------------------------------------------ sweep helpers (all block-parallel, deterministic order numbers)
// chk(x, got, order, LocalViol&) is called for every element.
// A trap inside a sweep is a verdict of the code under test (class "<id>.trap"), never a crash of the checker: the batch is
// re-run element by element under the guard and the trapping inputs are recorded.
template<typename V> void report_trap(Recorder& rec, V& lv, Shim* s, bool binary, int op, i64 a, i64 b, int sig, u64 order)
  {
  int c = rec.cls(rec.prop_id + ".trap");
  lv.hit(c, order, [=]{ Example e; e.entry = std::string(binary ? "binary" : "unary") + " entry point #" + std::to_string(op); e.cfg = s->name; e.inputs = {{"a", to_s(a)}}; if( binary ) e.inputs.push_back({"b", to_s(b)});
    e.expected = "returns normally"; e.got = "killed by signal " + std::to_string(sig); e.rcase = binary ? "trap_bin" : "trap_un"; e.rin = { to_s(op), to_s(a), to_s(b) }; return e; });
  }
template<typename Chk> u64 sweep_un_set(Shim* s, int op, std::vector<i64> const& X, int threads, Recorder& rec, u64 order_base, Chk chk)
  {
  const size_t B = 4096;
  size_t nb = (X.size() + B - 1) / B;
  parallel_blocks(nb, threads, [&](size_t blk, int) {
    LocalViol lv(rec);
    size_t lo = blk * B, hi = std::min(X.size(), lo + B);
    std::vector<i64> out(hi - lo);
    int sig = guarded([&]{ s->fm_un_batch(op, X.data() + lo, hi - lo, out.data()); });
    for( size_t i = lo; i < hi; ++i )
      {
      if( sig ) { i64 g = 0; int sg = guarded([&]{ g = s->fm_un(op, X[i]); }); if( sg ) { report_trap(rec, lv, s, false, op, X[i], 0, sg, order_base + i); continue; } out[i - lo] = g; }
      chk(X[i], out[i - lo], order_base + i, lv);
      }
    });
  rec.add_states(X.size(), X.size(), X.size());
  return X.size();
  }
// every raw value in [lo, hi]
template<typename Chk> u64 sweep_un_range(Shim* s, int op, i64 lo, i64 hi, int threads, Recorder& rec, u64 order_base, Chk chk, size_t B = 8192)
  {
  u64 total = static_cast<u64>(hi - lo) + 1;
  size_t nb = static_cast<size_t>((total + B - 1) / B);
  parallel_blocks(nb, threads, [&](size_t blk, int) {
    LocalViol lv(rec);
    i64 b0 = lo + static_cast<i64>(blk * B);
    size_t n = static_cast<size_t>(std::min<u64>(B, total - blk * B));
    std::vector<i64> out(n);
    int sig = guarded([&]{ s->fm_un_range(op, b0, n, out.data()); });
    for( size_t i = 0; i < n; ++i )
      {
      i64 x = b0 + static_cast<i64>(i);
      if( sig ) { i64 g = 0; int sg = guarded([&]{ g = s->fm_un(op, x); }); if( sg ) { report_trap(rec, lv, s, false, op, x, 0, sg, order_base + blk * B + i); continue; } out[i] = g; }
      chk(x, out[i], order_base + blk * B + i, lv);
      }
    });
  rec.add_states(total, total, total);
  return total;
  }
// chk(a, b, got, order, lv) for every (a,b) in A x Bv
template<typename Chk> u64 sweep_pairs(Shim* s, int op, std::vector<i64> const& A, std::vector<i64> const& Bv, int threads, Recorder& rec, u64 order_base, Chk chk)
  {
  parallel_blocks(A.size(), threads, [&](size_t ia, int) {
    LocalViol lv(rec);
    std::vector<i64> out(Bv.size());
    int sig = guarded([&]{ s->fm_bin_row(op, A[ia], Bv.data(), Bv.size(), out.data()); });
    for( size_t ib = 0; ib < Bv.size(); ++ib )
      {
      if( sig ) { i64 g = 0; int sg = guarded([&]{ g = s->fm_bin(op, A[ia], Bv[ib]); }); if( sg ) { report_trap(rec, lv, s, true, op, A[ia], Bv[ib], sg, order_base + ia * Bv.size() + ib); continue; } out[ib] = g; }
      chk(A[ia], Bv[ib], out[ib], order_base + ia * Bv.size() + ib, lv);
      }
    });
  u64 n = static_cast<u64>(A.size()) * Bv.size();
  rec.add_states(n, n, n);
  return n;
  }
// ---- two-call histories on ONE thread: f(a); f(b) where b "aliases" a (equal modulo 2^k, equal above bit k, negated, or
// the same value again). A function that keeps state between calls (a memo keyed on part of its argument, a cached
// reduction) answers the second call from the first; any single-call sweep, in which neighbouring calls have
// unrelated or adjacent arguments, cannot show that. The second call's value goes to the property's own oracle.
std::vector<i64> alias_args(i64 a, i64 lo, i64 hi);
std::vector<i64> const& history_seeds();
// wraps a LocalViol: the recorded example replays the whole history ("althist": op, a, then the inner case)
struct HistViol
  {
  LocalViol& lv; int op; i64 a;
  template<typename F> void hit(int cl, u64 ord, F && f)
    {
    auto g = std::forward<F>(f); int op_ = op; i64 a_ = a;
    lv.hit(cl, ord, [=]{ Example e = g(); e.shape += (e.shape.empty() ? "" : ", ") + std::string("second of two calls on one thread; the first call had argument ") + to_s(a_);
      e.inputs.push_back({"first_call_argument", to_s(a_)});
      std::vector<std::string> r { to_s(op_), to_s(a_), e.rcase }; r.insert(r.end(), e.rin.begin(), e.rin.end()); e.rin = r; e.rcase = "althist"; return e; });
    }
  };
// wraps a LocalViol: the example records that errno was preset before the call ("env<inner case>": errno value, then the inner case)
struct EnvViol
  {
  LocalViol& lv; int ev;
  template<typename F> void hit(int cl, u64 ord, F && f)
    {
    auto g = std::forward<F>(f); int ev_ = ev;
    lv.hit(cl, ord, [=]{ Example e = g(); e.shape += (e.shape.empty() ? "" : ", ") + std::string("errno preset to ") + (ev_ == 33 ? "EDOM" : ev_ == 34 ? "ERANGE" : std::to_string(ev_)) + " before the call";
      std::vector<std::string> r { std::to_string(ev_), e.rcase }; r.insert(r.end(), e.rin.begin(), e.rin.end()); e.rin = r; e.rcase = "env" + e.rcase; return e; });
    }
  };
// chk(b, got, order, HistViol&) for every seed a in [lo,hi] and every b in alias_args(a); single-threaded by design
template<typename Chk> u64 sweep_alias_histories(Shim* s, int op, i64 lo, i64 hi, Recorder& rec, u64 order_base, Chk chk)
  {
  LocalViol lv(rec); u64 n = 0;
  std::vector<i64> const& A = history_seeds();
  for( size_t ia = 0; ia < A.size(); ++ia )
    {
    i64 a = A[ia]; if( a < lo || a > hi ) continue;
    std::vector<i64> Bv = alias_args(a, lo, hi);
    HistViol hv { lv, op, a };
    for( size_t ib = 0; ib < Bv.size(); ++ib )
      {
      i64 g = 0; int sg = guarded([&]{ s->fm_un(op, a); g = s->fm_un(op, Bv[ib]); }); ++n;
      if( sg ) { report_trap(rec, lv, s, false, op, Bv[ib], 0, sg, order_base + (ia << 12) + ib); continue; }
      chk(Bv[ib], g, order_base + (ia << 12) + ib, hv);
      }
    }
  rec.add_states(n, 2 * n, n); rec.count("two_call_histories_with_aliased_arguments", n);
  return n;
  }
// expected value of fm_un_cmpmask / fm_bin_cmpmask for a result r (comparisons against the shim's constants, isnan, >= 0, != 0)
inline u64 expected_cmpmask(Shim* s, i64 r)
  {
  u64 m = 0; int n = s->fm_cmpmask_count();
  for( int i = 0; i < n; ++i ) { i64 c = s->fm_cmpmask_const(i); m |= (static_cast<u64>(r < c) << (3*i)) | (static_cast<u64>(r == c) << (3*i+1)) | (static_cast<u64>(r > c) << (3*i+2)); }
  m |= static_cast<u64>(r == FX_NAN || r == -FX_NAN) << (3*n);
  m |= static_cast<u64>(r >= 0) << (3*n+1);
  m |= static_cast<u64>(r != 0) << (3*n+2);
  return m;
  }
inline Example ex1(Shim* s, std::string entry, std::string shape, std::vector<std::pair<std::string,std::string>> in,
                   std::string expected, std::string got, std::string rcase, std::vector<std::string> rin)
  {
  Example e; e.entry = std::move(entry); e.cfg = s->name; e.shape = std::move(shape); e.inputs = std::move(in);
  e.expected = std::move(expected); e.got = std::move(got); e.rcase = std::move(rcase); e.rin = std::move(rin);
  return e;
  }
