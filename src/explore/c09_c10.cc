// C09 sin / cos (accuracy, range, exact periodicity), C10 tan (accuracy, oddness, period, pole).
#include "common.h"
#include "ref.h"

namespace {
const i64 P2 = 2 * PHI;            // 411774, the library's 2*pi period in raw units

std::vector<i64> k_set(i64 period, i64 xmax_abs, bool nonneg_only)
  {
  std::vector<i64> ks;
  for( i64 k = -64; k <= 64; ++k ) ks.push_back(k);
  for( int j = 6; j <= 44; ++j ) for( i64 base : { (1ll << j) - 1, 1ll << j, (1ll << j) + 1, 3ll << (j - 1) } )
    { ks.push_back(base); ks.push_back(-base); }
  // eight further k per binade (2^j * (1 + i/8) + i): bands of k that contain no power of two
  for( int j = 6; j <= 44; ++j ) for( i64 i = 1; i < 8; ++i ) { i64 base = (1ll << j) + (i << (j - 3)) + i; ks.push_back(base); ks.push_back(-base); }
  // the largest in-domain turn counts (the boundary of the quantifier |x + k*period| < xmax_abs)
  { i64 kb = xmax_abs / period; for( i64 d = 0; d <= 4; ++d ) { ks.push_back(kb - d); ks.push_back(-(kb - d)); } }
  std::vector<i64> r;
  for( i64 k : ks )
    {
    if( nonneg_only && k < 0 ) continue;
    i128 far = static_cast<i128>(k) * period; if( far < 0 ) far = -far;
    if( far + period < xmax_abs ) r.push_back(k);
    }
  std::sort(r.begin(), r.end()); r.erase(std::unique(r.begin(), r.end()), r.end());
  return r;
  }

//====================================================================== C09
struct C09
  {
  Recorder& rec; int c_acc, c_range, c_period;
  i64 X0 = -411774, X1 = 411774;
  std::vector<Interval> tab[2];     // [0] sin, [1] cos; index x - X0
  u64 undecided = 0;
  explicit C09(Recorder& r) : rec(r), c_acc(r.cls("C09.accuracy_bound_exceeded")), c_range(r.cls("C09.result_outside_[-1,1]")), c_period(r.cls("C09.not_periodic")) {}
  void build(int threads)
    {
    size_t n = static_cast<size_t>(X1 - X0 + 1);
    tab[0].resize(n); tab[1].resize(n);
    std::mutex m;
    parallel_blocks((n + 4095) / 4096, threads, [&](size_t blk, int) {
      u64 und = 0;
      for( size_t i = blk * 4096; i < std::min(n, (blk + 1) * 4096); ++i )
        {
        q128 x = Q(X0 + static_cast<i64>(i));
        q128 r_s = fabsq(remainderq(x, qpi()));                 // distance to the nearest multiple of pi  = |asin(sin x)|
        q128 r_c = fabsq(remainderq(x - qpi() / 2, qpi()));     // distance to the nearest odd multiple of pi/2 = |asin(cos x)|
        q128 b_s = 4 / 65536.0Q + powq(r_s, 9) / 362880, b_c = 4 / 65536.0Q + powq(r_c, 9) / 362880;
        tab[0][i] = accept_interval(sinq(x), b_s, &und);
        tab[1][i] = accept_interval(cosq(x), b_c, &und);
        }
      std::lock_guard<std::mutex> g(m); undecided += und;
      });
    }
  template<typename V> void acc(Shim* s, int fn, i64 x, i64 got, u64 order, V& lv)
    {
    Interval iv = tab[fn][static_cast<size_t>(x - X0)];
    int op = fn ? U_COS : U_SIN;
    if( got < -65536 || got > 65536 ) lv.hit(c_range, order, [=]{ return ex1(s, fn ? "cos" : "sin", "", {{"x",to_s(x)}}, "in [-65536, 65536]", to_s(got), "acc", {to_s(op), to_s(x)}); });
    if( got < iv.lo || got > iv.hi ) lv.hit(c_acc, order, [=]{ return ex1(s, fn ? "cos" : "sin", "", {{"x",to_s(x)}}, "raw in [" + to_s(iv.lo) + "," + to_s(iv.hi) + "] (4 ulp + r^9/9!)", to_s(got), "acc", {to_s(op), to_s(x)}); });
    }
  template<typename V> void period(Shim* s, int fn, i64 x, i64 k, i64 base, i64 got, u64 order, V& lv)
    {
    int op = fn ? U_COS : U_SIN;
    if( got < -65536 || got > 65536 ) lv.hit(c_range, order, [=]{ return ex1(s, fn ? "cos" : "sin", "", {{"x",to_s(x + k * P2)}}, "in [-65536, 65536]", to_s(got), "per", {to_s(op), to_s(x), to_s(k)}); });
    if( got != base ) lv.hit(c_period, order, [=]{ return ex1(s, fn ? "cos(x + k*2phi) == cos(x)" : "sin(x + k*2phi) == sin(x)", "", {{"x",to_s(x)},{"k",to_s(k)},{"x+k*2phi",to_s(x + k * P2)}}, to_s(base), to_s(got), "per", {to_s(op), to_s(x), to_s(k)}); });
    }
  };

void explore09(Options const& o, std::vector<Shim*> const& shims, std::vector<Shim*> const&, Recorder& rec)
  {
  bool th = o.tier == "thorough";
  C09 c(rec);
  c.build(o.threads);
  const i64 LIM = 1ll << 62;
  std::vector<i64> ks = k_set(P2, LIM, false);
  std::vector<i64> S = filter_abs_below(th ? S_set(8,6) : S_set(6,4), LIM);
  rec.note("alphabet", "accuracy and range: EVERY raw x in [-411774, 411774] (the complete stated domain); periodicity: every residue in [0, 2phi) (411774 values) x " + std::to_string(ks.size())
           + " values of k (all |k| <= 64, +-(2^j-1), +-2^j, +-(2^j+1), +-3*2^(j-1) for j = 6..44 while |x| < 2^62) - the reduced argument is the only thing sin reads, so residue x k is the complete reduced state space; plus S (|S|=" + std::to_string(S.size()) + ") x the same k");
  rec.count("oracle.undecided_borderline_intervals", c.undecided);
  for( size_t ci = 0; ci < shims.size(); ++ci )
    {
    Shim* s = shims[ci];
    u64 ob = static_cast<u64>(ci) << 56;
    for( int fn = 0; fn < 2; ++fn )
      {
      int op = fn ? U_COS : U_SIN;
      u64 ob2 = ob | (static_cast<u64>(fn) << 52);
      sweep_un_range(s, op, c.X0, c.X1, o.threads, rec, ob2, [&](i64 x, i64 got, u64 ord, LocalViol& lv) { c.acc(s, fn, x, got, ord, lv); });
      sweep_alias_histories(s, op, c.X0, c.X1, rec, ob2 | (5ull << 48), [&](i64 x, i64 got, u64 ord, HistViol& hv) { c.acc(s, fn, x, got, ord, hv); });
      // base values on one period
      std::vector<i64> base(static_cast<size_t>(P2));
      s->fm_un_range(op, 0, base.size(), base.data());
      bool quick_subset = !th && ci >= 2;       // quick: the full k set on the first two configurations, |k| <= 64 and powers of two elsewhere
      for( size_t ki = 0; ki < ks.size(); ++ki )
        {
        i64 k = ks[ki];
        if( quick_subset && !(k >= -8 && k <= 8) && (k & (k - 1)) != 0 && ((-k) & (-k - 1)) != 0 && (k < 0 ? -k : k) < LIM / P2 - 8 ) continue;
        sweep_un_range(s, op, k * P2, k * P2 + P2 - 1, o.threads, rec, ob2 | (1ull << 48) | (static_cast<u64>(ki) << 20), [&](i64 x, i64 got, u64 ord, LocalViol& lv) {
          i64 rho = x - k * P2; c.period(s, fn, rho, k, base[static_cast<size_t>(rho)], got, ord, lv); }, 65536);
        }
      // every k of a dense range for the residues at which a reduction by word folding changes behaviour: (2^e mod 2phi) + d
      {
      std::vector<i64> res;
      for( int e : { 16, 24, 32, 40, 48, 56 } ) { i64 c2 = static_cast<i64>((static_cast<i128>(1) << e) % P2); for( i64 d = -2; d <= 2; ++d ) res.push_back(((c2 + d) % P2 + P2) % P2); }
      std::sort(res.begin(), res.end()); res.erase(std::unique(res.begin(), res.end()), res.end());
      i64 KD = th ? (1ll << 20) : (ci < 2 ? (1ll << 17) : (1ll << 14));
      const i64 B = 1 << 12; size_t nbk = static_cast<size_t>(KD / B);
      for( size_t ri = 0; ri < res.size(); ++ri ) for( int sgn = 0; sgn < 2; ++sgn )
        {
        i64 rho = res[ri]; i64 b0 = base[static_cast<size_t>(rho)];
        parallel_blocks(nbk, o.threads, [&](size_t blk, int) {
          LocalViol lv(rec); std::vector<i64> xs(B), out(B);
          for( i64 i = 0; i < B; ++i ) { i64 k = (static_cast<i64>(blk) * B + i) * (sgn ? -1 : 1); xs[static_cast<size_t>(i)] = rho + k * P2; }
          s->fm_un_batch(op, xs.data(), xs.size(), out.data());
          for( i64 i = 0; i < B; ++i ) { i64 k = (static_cast<i64>(blk) * B + i) * (sgn ? -1 : 1); c.period(s, fn, rho, k, b0, out[static_cast<size_t>(i)], ob2 | (3ull << 48) | (ri << 32) | (static_cast<u64>(sgn) << 31) | static_cast<u64>(static_cast<i64>(blk) * B + i), lv); }
          });
        rec.add_states(static_cast<u64>(KD), static_cast<u64>(KD), static_cast<u64>(KD));
        }
      }
      // validity limits of a division-free remainder (see C10): |x| within +-8 of 2^w / |c*P - 2^w|, c = floor or ceil(2^w / P),
      // P in {2phi, phi, phi/2}, w in {62, 63, 64}, and of the halves and doubles of those limits
      {
      LocalViol lv(rec); u64 n = 0;
      std::vector<i64> lims;
      for( i64 P : { P2, P2 / 2, P2 / 4 } ) for( int w : { 62, 63, 64 } )
        {
        unsigned __int128 W = static_cast<unsigned __int128>(1) << w;
        unsigned __int128 cd = W / static_cast<unsigned __int128>(P), cu = cd + 1;
        unsigned __int128 ed = W - cd * P, eu = cu * P - W;
        for( unsigned __int128 e : { ed, eu } ) if( e != 0 ) for( int sh = -1; sh <= 1; ++sh )
          { unsigned __int128 L = W / e; L = sh < 0 ? L >> 1 : sh > 0 ? L << 1 : L; if( L > 16 && L < static_cast<unsigned __int128>(LIM) - 16 ) lims.push_back(static_cast<i64>(L)); }
        }
      std::sort(lims.begin(), lims.end()); lims.erase(std::unique(lims.begin(), lims.end()), lims.end());
      for( i64 L : lims ) for( i64 d = -8; d <= 8; ++d ) for( int sgn = 0; sgn < 2; ++sgn )
        {
        i64 x = (L + d) * (sgn ? -1 : 1); i64 k = x / P2, rho = x % P2; if( rho < 0 ) { rho += P2; --k; } ++n;
        i64 g = s->fm_un(op, x);
        c.period(s, fn, rho, k, base[static_cast<size_t>(rho)], g, ob2 | (7ull << 48) | n, lv);
        }
      rec.add_states(n, n, n); rec.count("reciprocal_remainder_validity_limits", lims.size());
      }
      // two-call histories over neighbouring turns, single-threaded: f(T*2phi + d1); f((T+j)*2phi + r) for every turn T of a
      // prefix, small j and residues near the quarter points; the second value must still be the base value of its residue
      // (a reduction that remembers the previous turn is exact for single calls and for ascending sweeps)
      {
      LocalViol lv(rec); u64 n = 0;
      std::vector<i64> R2;
      for( i64 q = 0; q <= 4; ++q ) for( i64 d : { -9000ll, -5000ll, -100ll, -1ll, 0ll, 1ll, 100ll, 5000ll, 9000ll } ) { i64 r = q * (P2 / 4) + d; if( r >= 0 && r < P2 ) R2.push_back(r); }
      std::sort(R2.begin(), R2.end()); R2.erase(std::unique(R2.begin(), R2.end()), R2.end());
      i64 TMAX = th ? 1024 : 300;
      for( i64 T = 2; T <= TMAX; ++T ) for( i64 d1 : std::vector<i64>{ 0, 1, 100, 5000, 9000, P2 - 1, P2 / 2 } ) for( i64 j = -3; j <= 3; ++j ) for( int sgn = 0; sgn < 2; ++sgn )
        {
        i64 x1 = (T * P2 + d1) * (sgn ? -1 : 1);
        for( size_t ri = 0; ri < R2.size(); ++ri )
          {
          i64 k = (T + j) * (sgn ? -1 : 1) - (sgn ? 1 : 0); i64 rho = R2[ri]; i64 x2 = k * P2 + rho; ++n;
          s->fm_un(op, x1); i64 g = s->fm_un(op, x2);
          HistViol hv { lv, op, x1 };
          c.period(s, fn, rho, k, base[static_cast<size_t>(rho)], g, ob2 | (6ull << 48) | n, hv);
          }
        }
      rec.add_states(n, 2 * n, n); rec.count("two_call_histories_over_neighbouring_turns", n);
      }
      // S x k
      parallel_blocks(S.size(), o.threads, [&](size_t i, int) {
        LocalViol lv(rec);
        i64 x = S[i]; i64 b = s->fm_un(op, x);
        for( size_t ki = 0; ki < ks.size(); ++ki )
          {
          i128 y = static_cast<i128>(x) + static_cast<i128>(ks[ki]) * P2;
          if( y >= LIM || y <= -LIM ) continue;
          c.period(s, fn, x, ks[ki], b, s->fm_un(op, static_cast<i64>(y)), ob2 | (2ull << 48) | (i * 512 + ki), lv);
          }
        });
      rec.add_states(S.size() * ks.size(), S.size() * ks.size(), S.size() * ks.size());
      }
    }
  rec.sample("sin(raw 102944 ~ pi/2) = " + to_s(shims[0]->fm_un(U_SIN, 102944)) + " accepted interval [" + to_s(c.tab[0][static_cast<size_t>(102944 - c.X0)].lo) + "," + to_s(c.tab[0][static_cast<size_t>(102944 - c.X0)].hi) + "]");
  rec.sample("cos(raw 7 + 8192*2phi) = " + to_s(shims[0]->fm_un(U_COS, 7 + 8192 * P2)) + " vs cos(raw 7) = " + to_s(shims[0]->fm_un(U_COS, 7)));
  }
void replay09(Options const& o, Shim* s, Recorder& rec)
  {
  C09 c(rec); DirectViol d{rec};
  int op = static_cast<int>(parse_i64(o.rin.at(0))); int fn = op == U_COS; i64 x = parse_i64(o.rin.at(1));
  if( o.rcase == "acc" )
    {
    // single-point version of the table
    q128 xq = Q(x); q128 r = fn ? fabsq(remainderq(xq - qpi() / 2, qpi())) : fabsq(remainderq(xq, qpi()));
    c.X0 = x; c.X1 = x; c.tab[fn].assign(1, accept_interval(fn ? cosq(xq) : sinq(xq), 4 / 65536.0Q + powq(r, 9) / 362880));
    c.acc(s, fn, x, s->fm_un(op, x), 0, d);
    i64 out; s->fm_un_range(op, x, 1, &out); c.acc(s, fn, x, out, 0, d);
    }
  else { i64 k = parse_i64(o.rin.at(2)); i64 g = s->fm_un(op, x + k * P2); i64 b = s->fm_un(op, x); c.period(s, fn, x, k, b, g, 0, d); }   // the far argument first: it may be the second call of a recorded history
  rec.add_states(1,1,1);
  }

//====================================================================== C10
struct C10
  {
  Recorder& rec; int c_acc, c_odd, c_period, c_pole_nan, c_spurious_nan;
  i64 X0 = -205887, X1 = 205887;
  std::vector<Interval> tab;
  u64 undecided = 0;
  explicit C10(Recorder& r) : rec(r), c_acc(r.cls("C10.accuracy_bound_exceeded")), c_odd(r.cls("C10.not_odd")), c_period(r.cls("C10.not_periodic")),
     c_pole_nan(r.cls("C10.pole_not_nan")), c_spurious_nan(r.cls("C10.nan_away_from_pole")) {}
  static bool is_pole(i64 x) { i64 a = x < 0 ? -x : x; return a % PHI == PHI2; }
  static Interval one(i64 x, u64* und) { q128 t = tanq(Q(x)); return accept_interval(t, 2.5Q / 65536 * (1 + t * t), und); }
  void build(int threads)
    {
    size_t n = static_cast<size_t>(X1 - X0 + 1); tab.resize(n);
    std::mutex m;
    parallel_blocks((n + 4095) / 4096, threads, [&](size_t blk, int) {
      u64 und = 0;
      for( size_t i = blk * 4096; i < std::min(n, (blk + 1) * 4096); ++i ) tab[i] = one(X0 + static_cast<i64>(i), &und);
      std::lock_guard<std::mutex> g(m); undecided += und; });
    }
  template<typename V> void acc(Shim* s, i64 x, i64 got, u64 order, V& lv)
    {
    if( is_pole(x) ) { if( !fx_isnan(got) ) lv.hit(c_pole_nan, order, [=]{ return ex1(s, "tan", "pole", {{"x",to_s(x)}}, "NaN", to_s(got), "acc", {to_s(x)}); }); return; }
    Interval iv = tab[static_cast<size_t>(x - X0)];
    if( fx_isnan(got) ) { lv.hit(c_spurious_nan, order, [=]{ return ex1(s, "tan", "", {{"x",to_s(x)}}, "raw in [" + to_s(iv.lo) + "," + to_s(iv.hi) + "]", to_s(got), "acc", {to_s(x)}); }); return; }
    if( got < iv.lo || got > iv.hi ) lv.hit(c_acc, order, [=]{ return ex1(s, "tan", "", {{"x",to_s(x)}}, "raw in [" + to_s(iv.lo) + "," + to_s(iv.hi) + "] (2.5 ulp * (1 + tan^2))", to_s(got), "acc", {to_s(x)}); });
    }
  // structural clauses at an arbitrary argument: pole <=> NaN, oddness
  template<typename V> void structure(Shim* s, i64 x, i64 got, i64 got_neg, u64 order, V& lv)
    {
    bool pole = is_pole(x);
    if( pole && !fx_isnan(got) ) lv.hit(c_pole_nan, order, [=]{ return ex1(s, "tan", "pole", {{"x",to_s(x)}}, "NaN", to_s(got), "str", {to_s(x)}); });
    if( !pole && fx_isnan(got) ) lv.hit(c_spurious_nan, order, [=]{ return ex1(s, "tan", "", {{"x",to_s(x)}}, "not NaN (|x| mod phi != pi/2 constant)", to_s(got), "str", {to_s(x)}); });
    bool odd_ok = (fx_isnan(got) && fx_isnan(got_neg)) || (!fx_isnan(got) && got_neg == -got);
    if( !odd_ok ) lv.hit(c_odd, order, [=]{ return ex1(s, "tan(-x) == -tan(x)", "", {{"x",to_s(x)}}, to_s(-got), to_s(got_neg), "str", {to_s(x)}); });
    }
  template<typename V> void period(Shim* s, i64 x, i64 k, i64 base, i64 got, u64 order, V& lv)
    {
    bool ok = got == base || (fx_isnan(got) && fx_isnan(base));
    if( !ok ) lv.hit(c_period, order, [=]{ return ex1(s, "tan(x + k*phi) == tan(x)", "", {{"x",to_s(x)},{"k",to_s(k)},{"x+k*phi",to_s(x + k * PHI)}}, to_s(base), to_s(got), "per", {to_s(x), to_s(k)}); });
    }
  };

void explore10(Options const& o, std::vector<Shim*> const& shims, std::vector<Shim*> const&, Recorder& rec)
  {
  bool th = o.tier == "thorough";
  C10 c(rec);
  c.build(o.threads);
  const i64 LIM = 1ll << 62;
  std::vector<i64> ks = k_set(PHI, LIM, true);
  std::vector<i64> S = filter_abs_below(th ? S_set(8,6) : S_set(6,4), LIM);
  rec.note("alphabet", "accuracy: EVERY raw x in [-205887, 205887] (the complete stated domain); pole, oddness and period: every residue in [0, phi) (205887 values) x " + std::to_string(ks.size())
           + " values of k >= 0 (all k <= 64, 2^j-1, 2^j, 2^j+1, 3*2^(j-1) while x < 2^62) and their negations for oddness; plus S (|S|=" + std::to_string(S.size()) + ") x the same k");
  rec.count("oracle.undecided_borderline_intervals", c.undecided);
  for( size_t ci = 0; ci < shims.size(); ++ci )
    {
    Shim* s = shims[ci];
    u64 ob = static_cast<u64>(ci) << 56;
    sweep_un_range(s, U_TAN, c.X0, c.X1, o.threads, rec, ob, [&](i64 x, i64 got, u64 ord, LocalViol& lv) { c.acc(s, x, got, ord, lv); });
    sweep_alias_histories(s, U_TAN, c.X0, c.X1, rec, ob | (5ull << 48), [&](i64 x, i64 got, u64 ord, HistViol& hv) { c.acc(s, x, got, ord, hv); });
    std::vector<i64> base(static_cast<size_t>(PHI));
    s->fm_un_range(U_TAN, 0, base.size(), base.data());
    bool quick_subset = !th && ci >= 2;
    u64 poles = 0;
    for( size_t ki = 0; ki < ks.size(); ++ki )
      {
      i64 k = ks[ki];
      if( quick_subset && k > 8 && (k & (k - 1)) != 0 && k < LIM / PHI - 8 ) continue;
      // positive side: period and pole;  negative side: oddness
      const size_t B = 65536; size_t nb = (static_cast<size_t>(PHI) + B - 1) / B;
      parallel_blocks(nb, o.threads, [&](size_t blk, int) {
        LocalViol lv(rec);
        i64 r0 = static_cast<i64>(blk * B); size_t n = std::min<size_t>(B, static_cast<size_t>(PHI) - blk * B);
        std::vector<i64> pos(n), neg(n), xs(n);
        s->fm_un_range(U_TAN, k * PHI + r0, n, pos.data());
        for( size_t i = 0; i < n; ++i ) xs[i] = -(k * PHI + r0 + static_cast<i64>(i));
        s->fm_un_batch(U_TAN, xs.data(), n, neg.data());
        for( size_t i = 0; i < n; ++i )
          {
          i64 rho = r0 + static_cast<i64>(i), x = k * PHI + rho;
          u64 ord = ob | (1ull << 48) | (static_cast<u64>(ki) << 20) | static_cast<u64>(rho);
          c.period(s, rho, k, base[static_cast<size_t>(rho)], pos[i], ord, lv);
          c.structure(s, x, pos[i], neg[i], ord, lv);
          }
        });
      rec.add_states(2 * static_cast<u64>(PHI), 2 * static_cast<u64>(PHI), 3 * static_cast<u64>(PHI));
      ++poles;
      }
    rec.count("branch.pole_arguments_checked", 2 * poles);
    // two-call histories over neighbouring periods (see C09)
    {
    LocalViol lv(rec); u64 n = 0;
    std::vector<i64> R2;
    for( i64 q = 0; q <= 4; ++q ) for( i64 d : { -9000ll, -5000ll, -100ll, -1ll, 0ll, 1ll, 100ll, 5000ll, 9000ll } ) { i64 r = q * (PHI / 4) + d; if( r >= 0 && r < PHI ) R2.push_back(r); }
    std::sort(R2.begin(), R2.end()); R2.erase(std::unique(R2.begin(), R2.end()), R2.end());
    i64 TMAX = th ? 1024 : 300;
    for( i64 T = 4; T <= TMAX; ++T ) for( i64 d1 : std::vector<i64>{ 0, 1, 100, 5000, 9000, PHI - 1, PHI / 2 } ) for( i64 j = -3; j <= 3; ++j )
      {
      i64 x1 = T * PHI + d1;
      for( size_t ri = 0; ri < R2.size(); ++ri )
        {
        i64 k = T + j, rho = R2[ri], x2 = k * PHI + rho; ++n;
        s->fm_un(U_TAN, x1); i64 g = s->fm_un(U_TAN, x2);
        HistViol hv { lv, U_TAN, x1 };
        c.period(s, rho, k, base[static_cast<size_t>(rho)], g, ob | (6ull << 48) | n, hv);
        }
      }
    rec.add_states(n, 2 * n, n); rec.count("two_call_histories_over_neighbouring_periods", n);
    }
    // every k of a dense range for the residues at which a reduction by word folding changes behaviour: (2^e mod phi) + d
    {
    std::vector<i64> res;
    for( int e : { 16, 24, 32, 40, 48, 56 } ) { i64 c2 = static_cast<i64>((static_cast<i128>(1) << e) % PHI); for( i64 d = -2; d <= 2; ++d ) res.push_back(((c2 + d) % PHI + PHI) % PHI); }
    std::sort(res.begin(), res.end()); res.erase(std::unique(res.begin(), res.end()), res.end());
    i64 KD = th ? (1ll << 21) : (1ll << 18);
    const i64 B = 1 << 12; size_t nbk = static_cast<size_t>(KD / B);
    for( size_t ri = 0; ri < res.size(); ++ri )
      {
      i64 rho = res[ri]; i64 b0 = base[static_cast<size_t>(rho)];
      parallel_blocks(nbk, o.threads, [&](size_t blk, int) {
        LocalViol lv(rec); std::vector<i64> xs(B), out(B);
        for( i64 i = 0; i < B; ++i ) xs[static_cast<size_t>(i)] = rho + (static_cast<i64>(blk) * B + i) * PHI;
        int sg = guarded([&]{ s->fm_un_batch(U_TAN, xs.data(), xs.size(), out.data()); });
        for( i64 i = 0; i < B; ++i )
          { i64 k = static_cast<i64>(blk) * B + i; u64 ord = ob | (3ull << 48) | (ri << 32) | static_cast<u64>(k);
            if( sg ) { i64 g = 0; int s2 = guarded([&]{ g = s->fm_un(U_TAN, xs[static_cast<size_t>(i)]); }); if( s2 ) { report_trap(rec, lv, s, false, U_TAN, xs[static_cast<size_t>(i)], 0, s2, ord); continue; } out[static_cast<size_t>(i)] = g; }
            c.period(s, rho, k, b0, out[static_cast<size_t>(i)], ord, lv); }
        });
      rec.add_states(static_cast<u64>(KD), static_cast<u64>(KD), static_cast<u64>(KD));
      }
    rec.count("dense_k_residues", res.size());
    }
    // validity limits of a division-free remainder: with c = floor or ceil(2^w / P) for the period P (and its double and half), the
    // product form of x mod P is exact while x * |c*P - 2^w| < 2^w; the arguments within +-8 of that limit (w = 62, 63, 64) and of the
    // limit's halves and doubles - the one place where a reciprocal-multiplication reduction that is right everywhere else goes wrong
    {
    LocalViol lv(rec); u64 n = 0;
    std::vector<i64> lims;
    for( i64 P : { PHI, 2 * PHI, PHI / 2 } ) for( int w : { 62, 63, 64 } )
      {
      unsigned __int128 W = static_cast<unsigned __int128>(1) << w;
      unsigned __int128 cd = W / static_cast<unsigned __int128>(P), cu = cd + 1;
      unsigned __int128 ed = W - cd * P, eu = cu * P - W;
      for( unsigned __int128 e : { ed, eu } ) if( e != 0 ) for( int sh = -1; sh <= 1; ++sh )
        { unsigned __int128 L = W / e; L = sh < 0 ? L >> 1 : sh > 0 ? L << 1 : L; if( L > 16 && L < static_cast<unsigned __int128>(LIM) - 16 ) lims.push_back(static_cast<i64>(L)); }
      }
    std::sort(lims.begin(), lims.end()); lims.erase(std::unique(lims.begin(), lims.end()), lims.end());
    for( i64 L : lims ) for( i64 d = -8; d <= 8; ++d )
      {
      i64 x = L + d, k = x / PHI, rho = x % PHI; ++n;
      i64 g = 0; int sg = guarded([&]{ g = s->fm_un(U_TAN, x); });
      u64 ord = ob | (7ull << 48) | n;
      if( sg ) { report_trap(rec, lv, s, false, U_TAN, x, 0, sg, ord); continue; }
      c.period(s, rho, k, base[static_cast<size_t>(rho)], g, ord, lv);
      i64 gn = s->fm_un(U_TAN, -x); c.structure(s, x, g, gn, ord, lv);
      }
    rec.add_states(n, 2 * n, 2 * n); rec.count("reciprocal_remainder_validity_limits", lims.size());
    }
    parallel_blocks(S.size(), o.threads, [&](size_t i, int) {
      LocalViol lv(rec);
      i64 x = S[i]; i64 t = s->fm_un(U_TAN, x), tn = s->fm_un(U_TAN, -x);
      c.structure(s, x, t, tn, ob | (2ull << 48) | (i * 512), lv);
      if( x >= 0 ) for( size_t ki = 0; ki < ks.size(); ++ki )
        {
        i128 y = static_cast<i128>(x) + static_cast<i128>(ks[ki]) * PHI;
        if( y >= LIM ) continue;
        c.period(s, x, ks[ki], t, s->fm_un(U_TAN, static_cast<i64>(y)), ob | (2ull << 48) | (i * 512 + ki), lv);
        }
      });
    rec.add_states(S.size() * ks.size() / 2, S.size() * ks.size() / 2, S.size() * ks.size() / 2);
    }
  rec.sample("tan(raw 205886 ~ pi - 1ulp) = " + to_s(shims[0]->fm_un(U_TAN, 205886)) + " accepted [" + to_s(c.tab[static_cast<size_t>(205886 - c.X0)].lo) + "," + to_s(c.tab[static_cast<size_t>(205886 - c.X0)].hi) + "]");
  rec.sample("tan(raw 102944) = " + to_s(shims[0]->fm_un(U_TAN, 102944)) + " (NaN at the pole); tan(raw 102944 + 3*phi) = " + to_s(shims[0]->fm_un(U_TAN, 102944 + 3 * PHI)));
  }
void replay10(Options const& o, Shim* s, Recorder& rec)
  {
  C10 c(rec); DirectViol d{rec};
  i64 x = parse_i64(o.rin.at(0));
  if( o.rcase == "acc" ) { c.X0 = x; c.X1 = x; c.tab.assign(1, C10::one(x, nullptr)); c.acc(s, x, s->fm_un(U_TAN, x), 0, d); i64 out; s->fm_un_range(U_TAN, x, 1, &out); c.acc(s, x, out, 0, d); }
  else if( o.rcase == "str" ) c.structure(s, x, s->fm_un(U_TAN, x), s->fm_un(U_TAN, -x), 0, d);
  else { i64 k = parse_i64(o.rin.at(1)); i64 g = s->fm_un(U_TAN, x + k * PHI); i64 b = s->fm_un(U_TAN, x); c.period(s, x, k, b, g, 0, d); }
  rec.add_states(1,1,1);
  }
bool judge09(Shim* s, Recorder& rec, std::string const& kind, std::vector<u64> const& a, u64 value, u64 idx)
  {
  if( !(kind == "un" && a.size() == 2 && (a[0] == U_SIN || a[0] == U_COS)) ) return false;
  C09 c(rec); DirectViol d{rec};
  int fn = a[0] == U_COS; i64 x = static_cast<i64>(a[1]), got = static_cast<i64>(value);
  if( x >= -411774 && x <= 411774 )
    {
    q128 xq = Q(x); q128 r = fn ? fabsq(remainderq(xq - qpi() / 2, qpi())) : fabsq(remainderq(xq, qpi()));
    c.X0 = x; c.X1 = x; c.tab[fn].assign(1, accept_interval(fn ? cosq(xq) : sinq(xq), 4 / 65536.0Q + powq(r, 9) / 362880));
    c.acc(s, fn, x, got, idx, d);
    }
  else if( x > -(1ll << 62) && x < (1ll << 62) && (got < -65536 || got > 65536) )
    rec.viol(c.c_range, idx, [&]{ return ex1(s, fn ? "cos" : "sin", "", {{"x",to_s(x)}}, "in [-65536, 65536]", to_s(got), "acc", {}); });
  return true;
  }
bool judge10(Shim* s, Recorder& rec, std::string const& kind, std::vector<u64> const& a, u64 value, u64 idx)
  {
  if( !(kind == "un" && a.size() == 2 && a[0] == U_TAN) ) return false;
  C10 c(rec); DirectViol d{rec};
  i64 x = static_cast<i64>(a[1]), got = static_cast<i64>(value);
  if( x >= -205887 && x <= 205887 ) { c.X0 = x; c.X1 = x; c.tab.assign(1, C10::one(x, nullptr)); c.acc(s, x, got, idx, d); }
  else if( x > -(1ll << 62) && x < (1ll << 62) )
    {
    if( C10::is_pole(x) && !fx_isnan(got) ) rec.viol(c.c_pole_nan, idx, [&]{ return ex1(s, "tan", "pole", {{"x",to_s(x)}}, "NaN", to_s(got), "acc", {}); });
    if( !C10::is_pole(x) && fx_isnan(got) ) rec.viol(c.c_spurious_nan, idx, [&]{ return ex1(s, "tan", "", {{"x",to_s(x)}}, "not NaN (not a pole)", to_s(got), "acc", {}); });
    }
  return true;
  }
}
REGISTER_PROPERTY(C09, explore09, replay09)
REGISTER_JUDGE(C09, judge09)
REGISTER_JUDGE(C10, judge10)
REGISTER_PROPERTY(C10, explore10, replay10)
