// C13 sqrt (both algorithms), C14 hypot. Exact integer oracles (comparison of squares in 128 bits).
#include "common.h"

namespace {
const i64 LIM47 = 1ll << 47;
const int SQ_OPS[3] = { U_SQRT_ABACUS, U_SQRT_STD, U_SQRT };
const char* SQ_N[3] = { "detail::sqrt_abacus", "detail::sqrt_std_math", "sqrt" };

//====================================================================== C13
struct C13
  {
  Recorder& rec; int c_acc[3], c_neg[3], c_mono[3], c_square[3];
  explicit C13(Recorder& r) : rec(r)
    {
    const char* k[3] = { "abacus", "std", "sqrt" };
    for( int i = 0; i < 3; ++i ) { c_acc[i] = r.cls(std::string("C13.") + k[i] + ".error_not_below_1ulp"); c_neg[i] = r.cls(std::string("C13.") + k[i] + ".negative_argument_not_nan");
                                   c_mono[i] = r.cls(std::string("C13.") + k[i] + ".decreasing"); c_square[i] = r.cls(std::string("C13.") + k[i] + ".exact_square_wrong"); }
    }
  static bool ok(i64 x, i64 R)
    {
    if( x == 0 ) return R == 0;
    if( R < 0 || R > (1ll << 40) ) return false;
    i128 X = static_cast<i128>(x) << 16;
    i128 lo = static_cast<i128>(R - 1) * (R - 1), hi = static_cast<i128>(R + 1) * (R + 1);
    return (R == 0 || lo < X) && X < hi && R >= 1;
    }
  template<typename V> void val(Shim* s, int oi, i64 x, i64 got, u64 order, V& lv)
    {
    if( x < 0 ) { if( !fx_isnan(got) ) lv.hit(c_neg[oi], order, [=]{ return ex1(s, SQ_N[oi], "", {{"x",to_s(x)}}, "NaN", to_s(got), "val", {to_s(oi), to_s(x)}); }); return; }
    if( !ok(x, got) ) lv.hit(c_acc[oi], order, [=]{ return ex1(s, SQ_N[oi], s->sqrt_algo == 1 ? "sqrt()=abacus" : "sqrt()=std", {{"x",to_s(x)}}, "R >= 0 with (R-1)^2 < x*2^16 < (R+1)^2, i.e. R ~ " + to_s(static_cast<i64>(std::sqrt(static_cast<long double>(x) * 65536.0L))), to_s(got), "val", {to_s(oi), to_s(x)}); });
    }
  };

void sqrt_dense(C13& c, Shim* s, int oi, i64 hi, int threads, u64 ob)
  {
  const size_t B = 1 << 15;
  size_t nb = static_cast<size_t>((hi + static_cast<i64>(B) - 1) / static_cast<i64>(B));
  std::vector<i64> first(nb), last(nb);
  parallel_blocks(nb, threads, [&](size_t blk, int) {
    LocalViol lv(c.rec);
    i64 x0 = static_cast<i64>(blk * B); size_t n = static_cast<size_t>(std::min<i64>(static_cast<i64>(B), hi - x0));
    std::vector<i64> out(n);
    s->fm_un_range(SQ_OPS[oi], x0, n, out.data());
    for( size_t i = 0; i < n; ++i )
      {
      i64 x = x0 + static_cast<i64>(i);
      c.val(s, oi, x, out[i], ob | static_cast<u64>(x), lv);
      if( i > 0 && out[i] < out[i - 1] ) { i64 p = out[i - 1], g = out[i]; lv.hit(c.c_mono[oi], ob | static_cast<u64>(x), [=]{ return ex1(s, SQ_N[oi], "monotone", {{"x",to_s(x)}}, ">= f(x - 1ulp) = " + to_s(p), to_s(g), "mono", {to_s(oi), to_s(x), to_s(x - 1)}); }); }
      }
    first[blk] = out[0]; last[blk] = out[n - 1];
    });
  LocalViol lv(c.rec);
  for( size_t blk = 1; blk < nb; ++blk ) if( first[blk] < last[blk - 1] )
    { i64 x = static_cast<i64>(blk * B), p = last[blk - 1], g = first[blk]; lv.hit(c.c_mono[oi], ob | static_cast<u64>(x), [=]{ return ex1(s, SQ_N[oi], "monotone", {{"x",to_s(x)}}, ">= " + to_s(p), to_s(g), "mono", {to_s(oi), to_s(x), to_s(x - 1)}); }); }
  c.rec.add_states(static_cast<u64>(hi), static_cast<u64>(hi), static_cast<u64>(hi) * 2);
  }

void explore13(Options const& o, std::vector<Shim*> const& shims, std::vector<Shim*> const&, Recorder& rec)
  {
  bool th = o.tier == "thorough";
  C13 c(rec);
  std::vector<i64> S, Sneg;
  for( i64 x : merge_sets(th ? S_set(10,8) : S_set(8,8), S2_set(th ? 3 : 2)) ) { if( x >= 0 && x < LIM47 ) S.push_back(x); if( x < 0 ) Sneg.push_back(x); }
  for( i64 d = 1; d <= (1 << 16); ++d ) Sneg.push_back(-d);
  std::sort(Sneg.begin(), Sneg.end()); Sneg.erase(std::unique(Sneg.begin(), Sneg.end()), Sneg.end());
  i64 dense_big = th ? (1ll << 33) : (1ll << 26), dense_small = th ? (1ll << 28) : (1ll << 22);
  i64 MS = 11863283;    // m^2 < 2^47
  rec.note("alphabet", "both algorithms called directly and sqrt() itself: every raw x in [0, 2^" + std::to_string(th ? 33 : 26) + ") on the first gcc and clang configuration and [0, 2^" + std::to_string(th ? 28 : 22)
           + ") elsewhere; S (|S|=" + std::to_string(S.size()) + ") up to 2^47 with monotonicity over the sorted set; ALL " + std::to_string(MS) + " exactly representable squares n*n < 2^31; " + std::to_string(Sneg.size()) + " negative arguments; step points of the root (smallest x with x*2^16 >= k^2, and x-1) for " + std::to_string(th ? 32768 : 2048) + " consecutive k at the bottom, middle and top of every binade of k up to floor(sqrt(2^63))");
  for( size_t ci = 0; ci < shims.size(); ++ci )
    {
    Shim* s = shims[ci];
    rec.count(std::string("configs_where_sqrt()_runs.") + (s->sqrt_algo == 1 ? "abacus" : s->sqrt_algo == 2 ? "std" : "unknown"), 1);
    bool big = ci == 1 || ci == 6 % shims.size();
    // the same function must not have two values for one argument: sqrt of a compile-time-constant argument (visible to the
    // optimiser) lies between the values for the opaque neighbours x-1 and x+1, and satisfies the accuracy clause itself
    {
    LocalViol lv(rec); int c_shape = rec.cls("C13.sqrt.constant_argument_breaks_monotonicity_or_accuracy");
    const int ops[3] = { U_SQRT_ABACUS, U_SQRT_STD, U_SQRT };
    for( int oi = 0; oi < 3; ++oi ) for( int ki = 0; ki < s->fm_constarg_count(0); ++ki )
      {
      i64 k = s->fm_constarg_value(0, ki); if( k < 1 || k >= LIM47 ) continue;
      i64 cv = s->fm_un_constarg(ops[oi], ki), lo = s->fm_un(ops[oi], k - 1), hi = s->fm_un(ops[oi], k + 1);
      if( !C13::ok(k, cv) || cv < lo || cv > hi ) lv.hit(c_shape, (static_cast<u64>(ci) << 56) | (9ull << 52) | static_cast<u64>(oi * 64 + ki), [=]{ return ex1(s, SQ_N[oi], "argument is a compile-time constant", {{"x",to_s(k)}}, "between f(x-1)=" + to_s(lo) + " and f(x+1)=" + to_s(hi) + " (opaque arguments), within 1 ulp", to_s(cv), "constarg", {to_s(oi), to_s(ki)}); });
      }
    rec.add_states(3 * 24, 9 * 24, 3 * 24);
    }
    for( int oi = 0; oi < 3; ++oi )
      {
      u64 ob = (static_cast<u64>(ci) << 56) | (static_cast<u64>(oi) << 52);
      // sqrt() is one of the two algorithms (probed): the big dense sweep goes to the two algorithms, sqrt() gets the small one
      sqrt_dense(c, s, oi, (big && oi < 2) ? dense_big : dense_small, o.threads, ob);
      {
      std::vector<i64> out(S.size());
      s->fm_un_batch(SQ_OPS[oi], S.data(), S.size(), out.data());
      LocalViol lv(rec);
      for( size_t i = 0; i < S.size(); ++i )
        {
        c.val(s, oi, S[i], out[i], ob | (1ull << 48) | i, lv);
        if( i > 0 && out[i] < out[i - 1] ) { i64 x = S[i], xp = S[i - 1], p = out[i - 1], g = out[i]; lv.hit(c.c_mono[oi], ob | (1ull << 48) | i, [=]{ return ex1(s, SQ_N[oi], "monotone", {{"x",to_s(x)},{"earlier_x",to_s(xp)}}, ">= " + to_s(p), to_s(g), "mono", {to_s(oi), to_s(x), to_s(xp)}); }); }
        }
      rec.add_states(S.size(), S.size(), S.size() * 2);
      }
      sweep_un_set(s, SQ_OPS[oi], Sneg, o.threads, rec, ob | (2ull << 48), [&](i64 x, i64 got, u64 ord, LocalViol& lv) { c.val(s, oi, x, got, ord, lv); });
      // dense windows in every binade: 2^15 consecutive raw values at 2^e and at 3*2^(e-1) (accuracy and monotonicity between neighbours)
      {
      std::vector<i64> starts; for( int e = 20; e <= 46; ++e ) { starts.push_back(1ll << e); starts.push_back(3ll << (e - 1)); starts.push_back((1ll << (e + 1)) - (1 << 15)); }
      parallel_blocks(starts.size(), o.threads, [&](size_t bi, int) {
        LocalViol lv(rec); const size_t n = 1 << 15; std::vector<i64> out(n); i64 x0 = starts[bi];
        if( x0 + static_cast<i64>(n) > LIM47 ) x0 = LIM47 - static_cast<i64>(n);
        s->fm_un_range(SQ_OPS[oi], x0, n, out.data());
        for( size_t i = 0; i < n; ++i )
          {
          i64 x = x0 + static_cast<i64>(i); u64 ord = ob | (9ull << 48) | (bi << 16) | i;
          c.val(s, oi, x, out[i], ord, lv);
          if( i > 0 && out[i] < out[i - 1] ) { i64 p = out[i - 1], g = out[i]; lv.hit(c.c_mono[oi], ord, [=]{ return ex1(s, SQ_N[oi], "monotone", {{"x",to_s(x)}}, ">= f(x - 1ulp) = " + to_s(p), to_s(g), "mono", {to_s(oi), to_s(x), to_s(x - 1)}); }); }
          }
        });
      u64 n = static_cast<u64>(starts.size()) << 15; rec.add_states(n, n, 2 * n);
      }
      // errno preset to EDOM / ERANGE before every call
      for( int ev : { 33, 34 } )
        {
        LocalViol lv(rec);
        for( size_t i = 0; i < S.size(); i += 3 ) { i64 g = s->fm_un_env(SQ_OPS[oi], S[i], ev); EnvViol hv { lv, ev }; c.val(s, oi, S[i], g, ob | (6ull << 48) | (static_cast<u64>(ev) << 40) | i, hv); }
        for( i64 m = 0; m < 4096; ++m ) { i64 x = m * m * 7 + m; i64 g = s->fm_un_env(SQ_OPS[oi], x, ev); EnvViol hv { lv, ev }; c.val(s, oi, x, g, ob | (7ull << 48) | (static_cast<u64>(ev) << 40) | static_cast<u64>(m), hv); }
        for( i64 x : { -1ll, -65536ll, -(1ll << 40) } ) { i64 g = s->fm_un_env(SQ_OPS[oi], x, ev); EnvViol hv { lv, ev }; c.val(s, oi, x, g, ob | (8ull << 48) | (static_cast<u64>(ev) << 40) | static_cast<u64>(-x), hv); }
        u64 n = S.size() / 3 + 4096 + 3; rec.add_states(n, n, n); rec.count("calls_with_errno_preset", n);
        }
      // two-call histories with aliased arguments (state kept between calls)
      sweep_alias_histories(s, SQ_OPS[oi], -LIM47, LIM47 - 1, rec, ob | (5ull << 48), [&](i64 x, i64 got, u64 ord, HistViol& hv) { c.val(s, oi, x, got, ord, hv); });
      // arguments just below (and just above) the squares of k = 2^15*j +- t: x*2^16 = k^2 - t^2, the rounding boundary of every
      // square-root implementation (a correctly rounded floating-point root returns exactly k there)
      {
      const i64 JMAX = th ? 92681 : 92681; const int step = th ? 1 : 3;
      const size_t B = 1024; size_t nb = static_cast<size_t>((JMAX + static_cast<i64>(B) - 1) / static_cast<i64>(B));
      parallel_blocks(nb, o.threads, [&](size_t blk, int) {
        LocalViol lv(rec); std::vector<i64> in, out;
        for( i64 j = std::max<i64>(1, static_cast<i64>(blk * B)); j < std::min<i64>(JMAX, static_cast<i64>((blk + 1) * B)); j += step )
          for( i64 t = 1; t <= 3; ++t ) for( int sg = -1; sg <= 1; sg += 2 ) for( i64 d = -1; d <= 1; ++d )
            { i128 x = (static_cast<i128>(j) * j << 14) + sg * j * t + d; if( x > 0 && x < LIM47 ) in.push_back(static_cast<i64>(x)); }
        std::sort(in.begin(), in.end()); in.erase(std::unique(in.begin(), in.end()), in.end());
        out.resize(in.size());
        s->fm_un_batch(SQ_OPS[oi], in.data(), in.size(), out.data());
        for( size_t i = 0; i < in.size(); ++i )
          {
          c.val(s, oi, in[i], out[i], ob | (4ull << 48) | (blk << 20) | i, lv);
          if( i > 0 && out[i] < out[i - 1] ) { i64 x = in[i], xp = in[i - 1], p = out[i - 1], g = out[i]; lv.hit(c.c_mono[oi], ob | (4ull << 48) | (blk << 20) | i, [=]{ return ex1(s, SQ_N[oi], "monotone, near a perfect square", {{"x",to_s(x)},{"earlier_x",to_s(xp)}}, ">= " + to_s(p), to_s(g), "mono", {to_s(oi), to_s(x), to_s(xp)}); }); }
          }
        rec.add_states(in.size(), in.size(), 2 * in.size());
        });
      }
      // step points of the result: for consecutive k in windows at the bottom, middle and top of every binade of the root, the smallest
      // argument x with x*2^16 >= k^2 and its predecessor - the two arguments between which the correct root passes k. A root that is
      // rounded or corrected in the wrong direction is wrong exactly there, and only when x*2^16 - k^2 happens to be small
      {
      const i64 W = th ? (1 << 15) : (1 << 11); const i64 KMAX = 3037000499ll;
      std::vector<i64> k0s; for( int e = 9; e <= 31; ++e ) { k0s.push_back(1ll << e); k0s.push_back(3ll << (e - 1)); k0s.push_back((1ll << (e + 1)) - W); }
      k0s.push_back(KMAX - W + 1);
      parallel_blocks(k0s.size(), o.threads, [&](size_t bi, int) {
        LocalViol lv(rec); std::vector<i64> in, out;
        for( i64 k = std::max<i64>(2, k0s[bi]); k < k0s[bi] + W && k <= KMAX; ++k )
          { i128 k2 = static_cast<i128>(k) * k; i64 x = static_cast<i64>((k2 + 65535) >> 16); if( x < LIM47 ) in.push_back(x); if( x - 1 > 0 && x - 1 < LIM47 ) in.push_back(x - 1); }
        std::sort(in.begin(), in.end()); in.erase(std::unique(in.begin(), in.end()), in.end());
        out.resize(in.size());
        if( !in.empty() ) s->fm_un_batch(SQ_OPS[oi], in.data(), in.size(), out.data());
        for( size_t i = 0; i < in.size(); ++i )
          {
          u64 ord = ob | (10ull << 48) | (bi << 20) | i;
          c.val(s, oi, in[i], out[i], ord, lv);
          if( i > 0 && out[i] < out[i - 1] ) { i64 x = in[i], xp = in[i - 1], p = out[i - 1], g = out[i]; lv.hit(c.c_mono[oi], ord, [=]{ return ex1(s, SQ_N[oi], "monotone, at a step of the root", {{"x",to_s(x)},{"earlier_x",to_s(xp)}}, ">= " + to_s(p), to_s(g), "mono", {to_s(oi), to_s(x), to_s(xp)}); }); }
          }
        rec.add_states(in.size(), in.size(), 2 * in.size()); rec.count("step_point_arguments", in.size());
        });
      }
      // all exactly representable squares
      {
      const size_t B = 1 << 14; size_t nb = static_cast<size_t>((MS + static_cast<i64>(B) - 1) / static_cast<i64>(B));
      parallel_blocks(nb, o.threads, [&](size_t blk, int) {
        LocalViol lv(rec);
        i64 m0 = static_cast<i64>(blk * B); size_t n = static_cast<size_t>(std::min<i64>(static_cast<i64>(B), MS - m0));
        std::vector<i64> in(n), out(n);
        for( size_t i = 0; i < n; ++i ) { i64 m = m0 + static_cast<i64>(i); in[i] = m * m; }
        s->fm_un_batch(SQ_OPS[oi], in.data(), n, out.data());
        for( size_t i = 0; i < n; ++i ) { i64 m = m0 + static_cast<i64>(i); if( out[i] != m * 256 ) { i64 g = out[i]; lv.hit(c.c_square[oi], ob | (3ull << 48) | static_cast<u64>(m), [=]{ return ex1(s, SQ_N[oi], "exact square", {{"x",to_s(m * m)},{"n",to_s(m * 256)}}, to_s(m * 256), to_s(g), "val", {to_s(oi), to_s(m * m)}); }); } }
        });
      rec.add_states(static_cast<u64>(MS), static_cast<u64>(MS), static_cast<u64>(MS));
      }
      }
    }
  rec.sample("sqrt_abacus(raw 2^46) = " + to_s(shims[0]->fm_un(U_SQRT_ABACUS, 1ll << 46)) + " (exact 2^15*65536*sqrt(2)...: value sqrt(2^30) = 32768 -> raw 2147483648)");
  rec.sample("sqrt_std_math(raw 131072 = 2.0) = " + to_s(shims[0]->fm_un(U_SQRT_STD, 131072)) + ", sqrt_abacus -> " + to_s(shims[0]->fm_un(U_SQRT_ABACUS, 131072)) + ", sqrt(-1 raw) = " + to_s(shims[0]->fm_un(U_SQRT, -1)));
  }
void replay13(Options const& o, Shim* s, Recorder& rec)
  {
  C13 c(rec); DirectViol d{rec};
  if( o.rcase == "constarg" )
    { int oi2 = static_cast<int>(parse_i64(o.rin.at(0))), ki = static_cast<int>(parse_i64(o.rin.at(1))); const int ops[3] = { U_SQRT_ABACUS, U_SQRT_STD, U_SQRT };
      i64 k = s->fm_constarg_value(0, ki), cv = s->fm_un_constarg(ops[oi2], ki), lo = s->fm_un(ops[oi2], k - 1), hi = s->fm_un(ops[oi2], k + 1);
      if( !C13::ok(k, cv) || cv < lo || cv > hi ) rec.viol(rec.cls("C13.sqrt.constant_argument_breaks_monotonicity_or_accuracy"), 0, [&]{ return ex1(s, SQ_N[oi2], "constant argument", {{"x",to_s(k)}}, "in [" + to_s(lo) + "," + to_s(hi) + "]", to_s(cv), o.rcase, o.rin); });
      rec.add_states(1,1,1); return; }
  if( o.rcase == "envval" )
    { int ev = static_cast<int>(parse_i64(o.rin.at(0))); int oi2 = static_cast<int>(parse_i64(o.rin.at(2))); i64 x2 = parse_i64(o.rin.at(3));
      c.val(s, oi2, x2, s->fm_un_env(SQ_OPS[oi2], x2, ev), 0, d); rec.add_states(1,1,1); return; }
  int oi = static_cast<int>(parse_i64(o.rin.at(0))); i64 x = parse_i64(o.rin.at(1));
  if( o.rcase == "val" ) { c.val(s, oi, x, s->fm_un(SQ_OPS[oi], x), 0, d); i64 out; s->fm_un_range(SQ_OPS[oi], x, 1, &out); c.val(s, oi, x, out, 0, d);
                           if( x >= 0 ) { i64 r = static_cast<i64>(std::llround(std::sqrt(static_cast<long double>(x)))); if( r * r == x && s->fm_un(SQ_OPS[oi], x) != r * 256 ) rec.viol(c.c_square[oi], 0, [&]{ return ex1(s, SQ_N[oi], "exact square", {{"x",to_s(x)}}, to_s(r * 256), to_s(s->fm_un(SQ_OPS[oi], x)), o.rcase, o.rin); }); } }
  else { i64 xp = parse_i64(o.rin.at(2)); i64 g = s->fm_un(SQ_OPS[oi], x), p = s->fm_un(SQ_OPS[oi], xp);
         if( xp <= x && g < p ) rec.viol(c.c_mono[oi], 0, [&]{ return ex1(s, SQ_N[oi], "monotone", {{"x",to_s(x)},{"earlier_x",to_s(xp)}}, ">= " + to_s(p), to_s(g), o.rcase, o.rin); }); }
  rec.add_states(1,1,1);
  }

//====================================================================== C14
struct C14
  {
  Recorder& rec; int c_small, c_rel, c_sym, c_nan;
  explicit C14(Recorder& r) : rec(r), c_small(r.cls("C14.error_above_2ulp_(both_below_16384)")), c_rel(r.cls("C14.relative_error_above_1.5e-4")),
     c_sym(r.cls("C14.not_symmetric")), c_nan(r.cls("C14.nan_or_negative")) {}
  template<typename V> void val(Shim* s, i64 a, i64 b, i64 h, u64 order, V& lv, u64* br = nullptr)
    {
    auto mk = [=](std::string e) { return ex1(s, "hypot", s->sqrt_algo == 1 ? "sqrt()=abacus" : "sqrt()=std", {{"a",to_s(a)},{"b",to_s(b)}}, e, to_s(h), "val", {to_s(a), to_s(b)}); };
    i128 N = static_cast<i128>(a) * a + static_cast<i128>(b) * b;
    long double r = std::sqrt(static_cast<long double>(N));
    if( fx_isnan(h) || h < 0 || h > (1ll << 49) ) { lv.hit(c_nan, order, [=]{ return mk("finite, non-negative, ~" + to_s(static_cast<i64>(r))); }); return; }
    i64 aa = a < 0 ? -a : a, ab = b < 0 ? -b : b;
    if( aa < (1ll << 30) && ab < (1ll << 30) )
      {
      if( br ) ++br[0];
      bool ok = static_cast<i128>(h + 2) * (h + 2) >= N && (h < 2 || static_cast<i128>(h - 2) * (h - 2) <= N);
      if( !ok ) lv.hit(c_small, order, [=]{ return mk("within 2 ulp of " + to_s(static_cast<i64>(r))); });
      }
    else
      {
      if( br ) ++br[1];
      i128 H = static_cast<i128>(h) * 20000; H *= H;
      bool ok = H >= static_cast<i128>(19997) * 19997 * N && H <= static_cast<i128>(20003) * 20003 * N;
      if( !ok ) lv.hit(c_rel, order, [=]{ return mk("within relative 1.5e-4 of " + to_s(static_cast<i64>(r))); });
      }
    }
  };

void explore14(Options const& o, std::vector<Shim*> const& shims, std::vector<Shim*> const&, Recorder& rec)
  {
  bool th = o.tier == "thorough";
  C14 c(rec);
  std::vector<i64> P = filter_abs_below(th ? S_set(6,3) : S_set(4,3), LIM47);
  std::vector<i64> W;     // windows around the scaling thresholds of hypot
  { i64 w = th ? 2048 : 256; for( i64 ctr : { 1ll << 30, 1ll << 16, 759250125ll /* 2^29.5 */, 1ll << 29, (1ll << 30) - (1ll << 14), 1ll << 46, 3037000500ll /* sqrt(2^63) */, 2147483648ll /* sqrt(2^62) */, 1518500250ll /* sqrt(2^61) */ } ) for( i64 d = -w; d <= w; ++d ) { W.push_back(ctr + d); W.push_back(-(ctr + d)); } }
  std::sort(W.begin(), W.end()); W.erase(std::unique(W.begin(), W.end()), W.end());
  std::vector<i64> W2;
  { i64 w = th ? 1024 : 160; for( i64 ctr : { 3037000500ll, 2147483648ll, 1518500250ll } ) for( i64 d = -w; d <= w; ++d ) { W2.push_back(ctr + d); W2.push_back(-(ctr + d)); } std::sort(W2.begin(), W2.end()); }
  std::vector<i64> Ps = filter_abs_below(th ? S_set(4,2) : S_set(3,1), LIM47);
  rec.note("alphabet", "P^2 with |P|=" + std::to_string(P.size()) + " (S-shaped, |.| < 2^47); threshold windows W (|W|=" + std::to_string(W.size()) + ", around 2^16, 2^29, 2^29.5, 2^30-2^14, 2^30, 2^46) x P' (|P'|=" + std::to_string(Ps.size())
           + ") in both orders; symmetry hypot(a,b)==hypot(b,a)==hypot(|a|,|b|) on every pair");
  for( size_t ci = 0; ci < shims.size(); ++ci )
    {
    Shim* s = shims[ci];
    u64 ob = static_cast<u64>(ci) << 56;
    rec.count(std::string("configs_where_sqrt()_runs.") + (s->sqrt_algo == 1 ? "abacus" : s->sqrt_algo == 2 ? "std" : "unknown"), 1);
    auto run = [&](std::vector<i64> const& A, std::vector<i64> const& Bv, u64 ob2) {
      std::mutex m; u64 brs[2] = {0,0};
      parallel_blocks(A.size(), o.threads, [&](size_t ia, int) {
        LocalViol lv(rec); u64 br[2] = {0,0};
        size_t n = Bv.size(); i64 a = A[ia];
        std::vector<i64> out(n), swp(n), ab(n), as(n, a), absb(n);
        s->fm_bin_row(B_HYPOT, a, Bv.data(), n, out.data());
        s->fm_bin_batch(B_HYPOT, Bv.data(), as.data(), n, swp.data());
        for( size_t i = 0; i < n; ++i ) absb[i] = Bv[i] < 0 ? -Bv[i] : Bv[i];
        s->fm_bin_row(B_HYPOT, a < 0 ? -a : a, absb.data(), n, ab.data());
        for( size_t i = 0; i < n; ++i )
          {
          u64 ord = ob2 | (ia * n + i); i64 b = Bv[i];
          c.val(s, a, b, out[i], ord, lv, br);
          if( out[i] != swp[i] || out[i] != ab[i] ) { i64 h1 = out[i], h2 = swp[i], h3 = ab[i]; lv.hit(c.c_sym, ord, [=]{ return ex1(s, "hypot(a,b) == hypot(b,a) == hypot(|a|,|b|)", "", {{"a",to_s(a)},{"b",to_s(b)}}, "all equal", to_s(h1) + ", " + to_s(h2) + ", " + to_s(h3), "sym", {to_s(a), to_s(b)}); }); }
          }
        std::lock_guard<std::mutex> g(m); brs[0] += br[0]; brs[1] += br[1];
        });
      u64 n = static_cast<u64>(A.size()) * Bv.size(); rec.add_states(n, 3 * n, 3 * n);
      rec.count("branch.both_below_16384_(2ulp_clause)", brs[0]); rec.count("branch.relative_clause", brs[1]);
      };
    run(P, P, ob);
    run(W, Ps, ob | (1ull << 52));
    run(Ps, W, ob | (2ull << 52));
    run(W2, W2, ob | (3ull << 52));
    // worst-case alignment for a relative-error clause: maximal truncation loss (every bit below the retained ones set: operands one raw
    // unit below a multiple of 2^(16+s)) combined with minimal significance (the larger operand in the lowest 1/32 of its binade),
    // as a dense 2-D grid in every binade 2^14 .. 2^30: hi = (16384 + a) * 2^(16+s) - 1, lo = b * 2^(16+s) - 1
    {
    std::vector<int> SH; for( int sh = 0; sh <= 16; sh += (th ? 1 : 2) ) SH.push_back(sh);
    for( int sh : SH )
      {
      std::vector<i64> HI, LO;
      for( i64 a = 0; a < 512; a += (th ? 1 : 2) ) HI.push_back(((16384 + a) << (16 + sh)) - 1);
      for( i64 b = 2304; b <= 6144; b += (th ? 1 : 3) ) LO.push_back((b << (16 + sh)) - 1);
      run(HI, LO, ob | (4ull << 52) | (static_cast<u64>(sh) << 44));
      }
    }       // both operands next to the integer square roots of 2^61, 2^62, 2^63: where the sum of two squares wraps
    // carry-boundary pairs: 16-bit leading parts m1, m2 with m1 + m2 just above 2^16 (the sum of the operands crosses a power of
    // two), tails all ones or all zeros, at every magnitude: the inputs on which a clz-based choice of the scaling shift changes
    {
    int step = th ? 1 : 5;
    std::mutex m; u64 tot = 0;
    parallel_blocks(31, o.threads, [&](size_t sh, int) {
      LocalViol lv(rec); u64 n = 0;
      for( i64 m1 = 1 << 15; m1 < (1 << 16); m1 += step ) for( i64 dl = 0; dl <= 6; dl += 2 ) for( int tail = 0; tail < 2; ++tail )
        {
        i64 m2 = (1 << 16) - m1 + dl; if( m2 <= 0 ) continue;
        i64 a = (m1 << sh) - tail, b = (m2 << sh) - tail;
        if( a >= LIM47 || b >= LIM47 || a <= 0 || b <= 0 ) continue;
        i64 h = s->fm_bin(B_HYPOT, a, b), h2 = s->fm_bin(B_HYPOT, b, a);
        u64 ord = ob | (3ull << 52) | (static_cast<u64>(sh) << 40) | static_cast<u64>((m1 << 3) | (dl << 1) | tail);
        c.val(s, a, b, h, ord, lv);
        if( h != h2 ) lv.hit(c.c_sym, ord, [=]{ return ex1(s, "hypot(a,b) == hypot(b,a)", "", {{"a",to_s(a)},{"b",to_s(b)}}, to_s(h), to_s(h2), "sym", {to_s(a), to_s(b)}); });
        n += 2;
        }
      std::lock_guard<std::mutex> g(m); tot += n;
      });
    rec.add_states(tot, tot, tot); rec.count("carry_boundary_pairs", tot);
    }
    }
  rec.sample("hypot(raw 3*65536, raw 4*65536) = " + to_s(shims[0]->fm_bin(B_HYPOT, 3 * 65536, 4 * 65536)) + "; hypot(raw 1073741000, raw 65000) = " + to_s(shims[0]->fm_bin(B_HYPOT, 1073741000, 65000)));
  }
void replay14(Options const& o, Shim* s, Recorder& rec)
  {
  C14 c(rec); DirectViol d{rec};
  i64 a = parse_i64(o.rin.at(0)), b = parse_i64(o.rin.at(1));
  i64 h = s->fm_bin(B_HYPOT, a, b);
  if( o.rcase == "val" ) { c.val(s, a, b, h, 0, d); i64 out; s->fm_bin_row(B_HYPOT, a, &b, 1, &out); c.val(s, a, b, out, 0, d); }
  else { i64 h2 = s->fm_bin(B_HYPOT, b, a), h3 = s->fm_bin(B_HYPOT, a < 0 ? -a : a, b < 0 ? -b : b);
         if( h != h2 || h != h3 ) rec.viol(c.c_sym, 0, [&]{ return ex1(s, "hypot symmetry", "", {{"a",to_s(a)},{"b",to_s(b)}}, "all equal", to_s(h) + ", " + to_s(h2) + ", " + to_s(h3), o.rcase, o.rin); }); }
  rec.add_states(1,1,1);
  }
bool judge13(Shim* s, Recorder& rec, std::string const& kind, std::vector<u64> const& a, u64 value, u64 idx)
  {
  if( !(kind == "un" && a.size() == 2) ) return false;
  int oi = a[0] == U_SQRT_ABACUS ? 0 : a[0] == U_SQRT_STD ? 1 : a[0] == U_SQRT ? 2 : -1;
  if( oi < 0 ) return false;
  C13 c(rec); DirectViol d{rec};
  i64 x = static_cast<i64>(a[1]), got = static_cast<i64>(value);
  if( x >= LIM47 || (!fx_finite(x) && !fx_isnan(x)) ) return true;
  c.val(s, oi, x, got, idx, d);
  if( x >= 0 ) { i64 r = static_cast<i64>(std::llround(std::sqrt(static_cast<long double>(x)))); if( r * r == x && got != r * 256 ) rec.viol(c.c_square[oi], idx, [&]{ return ex1(s, SQ_N[oi], "exact square", {{"x",to_s(x)}}, to_s(r * 256), to_s(got), "val", {}); }); }
  return true;
  }
bool judge14(Shim* s, Recorder& rec, std::string const& kind, std::vector<u64> const& a, u64 value, u64 idx)
  {
  if( !(kind == "bin" && a.size() == 3 && a[0] == B_HYPOT) ) return false;
  C14 c(rec); DirectViol d{rec};
  i64 x = static_cast<i64>(a[1]), y = static_cast<i64>(a[2]);
  if( x > -LIM47 && x < LIM47 && y > -LIM47 && y < LIM47 ) c.val(s, x, y, static_cast<i64>(value), idx, d);
  return true;
  }
}
REGISTER_PROPERTY(C13, explore13, replay13)
REGISTER_JUDGE(C13, judge13)
REGISTER_JUDGE(C14, judge14)
REGISTER_PROPERTY(C14, explore14, replay14)
