// ThreadSanitizer lane of C07: every entry point is pure by contract, so concurrent calls from several threads must not race.
// Compiled with -fsanitize=thread together with /repo/fixed_lib/src/fixed_math.cc; four free-running threads call every public
// entry point on a small alphabet. A data race is undefined behaviour whether or not a wrong value is ever observed; TSan reports
// it from the happens-before relation, independently of the interleaving that happened to occur.
#include <fixedmath/fixed_math.hpp>
#include <fixedmath/iostream.h>
#include <sstream>
#include <thread>
#include <vector>
#include <atomic>
#include <cstdio>
#include <cstdint>
using namespace fixedmath;
typedef int64_t i64;
static std::atomic<unsigned long long> g_calls{0};
static std::atomic<unsigned long long> g_sink{0};

static void worker(int tid)
  {
  std::vector<i64> V { 0, 1, -1, 65536, -65536, 98304, 39322, 51472, 102944, 205887, 411774, 3 * 65536 + 7, -7 * 65536 + 123, 45 * 65536, 45 * 65536 + 49152, 1ll << 20, 1ll << 31, (1ll << 32) + 9, 1ll << 40, (1ll << 46) + 5,
                       -(1ll << 33), 0x123456789all, -0x123456789all, 0x7ffffffffffffffell, -0x7ffffffffffffffell, 0x7fffffffffffffffll };
  unsigned long long acc = 0, n = 0;
  for( int round = 0; round < 6; ++round )
    for( size_t i = 0; i < V.size(); ++i )
      {
      fixed_t x = as_fixed(V[(i + static_cast<size_t>(tid) * 5 + static_cast<size_t>(round)) % V.size()]), y = as_fixed(V[(i * 7 + static_cast<size_t>(tid)) % V.size()]);
      acc += (x + y).v; acc += (x - y).v; acc += (x * y).v; acc += (x / y).v; acc += (-x).v; acc += abs(x).v; acc += isnan(x);
      acc += floor(x).v; acc += ceil(x).v; acc += sin(x).v; acc += cos(x).v; acc += tan(x).v; acc += atan(x).v; acc += atan2(x, y).v; acc += asin(x).v; acc += acos(x).v;
      acc += sqrt(x).v; acc += detail::sqrt_abacus(x).v; acc += detail::sqrt_std_math(x).v; acc += hypot(x, y).v;
      acc += sin_angle(x).v; acc += cos_angle(x).v; acc += tan_angle(x).v; acc += sin_angle(static_cast<int>(i * 13) - 180).v; acc += cos_angle(static_cast<int16_t>(i * 29 - 300)).v; acc += tan_angle(45.f + static_cast<float>(i)).v;
      acc += angle_to_radians(static_cast<int>(i * 15)).v;
      acc += sqrt_aprox(x).v; acc += hypot_aprox(x, y).v; acc += atan_index_aprox(x).v; acc += atan_aprox(x).v; acc += sin_angle_aprox(static_cast<int32_t>(V[i] >> 8)).v; acc += cos_angle_aprox(static_cast<int32_t>(i) * 37 - 400).v;
      acc += (x << 3).v; acc += (x >> 2).v; acc += (x & y).v; acc += x < y; acc += x == y;
      acc += static_cast<unsigned long long>(static_cast<i64>(static_cast<double>(x))); acc += static_cast<int>(x); acc += fixed_t{ static_cast<double>(i) * 0.37 }.v; acc += fixed_t{ static_cast<int>(i) - 9 }.v;
      acc += (x * 3).v; acc += (x / 7).v; acc += (2.5 * x > 1.0); { fixed_t z{x}; z += y; z *= 2; z /= 3; z -= 1; acc += z.v; }
      { std::ostringstream os; os << x; acc += os.str().size(); }
      n += 50;
      }
  g_sink += acc; g_calls += n;
  }
int main()
  {
  std::vector<std::thread> t;
  for( int i = 0; i < 4; ++i ) t.emplace_back(worker, i);
  for( auto& x : t ) x.join();
  std::printf("TSAN-LANE calls=%llu sink=%llu\n", g_calls.load(), g_sink.load());
  return 0;
  }
