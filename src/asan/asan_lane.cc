// AddressSanitizer lane of C07: a standalone program, compiled with -fsanitize=address (recover mode) together with
// /repo/fixed_lib/src/fixed_math.cc, that drives the compiled table functions over a bounded input space. ASan sees accesses
// that land in the red zone next to an object (e.g. one element past the end of a table through an iterator), which neither
// UBSan's array-index check nor the index probe can observe. (A far out-of-bounds index lands in other mapped memory and is
// invisible to ASan; that case is covered by the index probe.) The hook below names the entry point and the input.
#include <fixedmath/fixed_math.hpp>
#include <fixedmath/iostream.h>
#include <sstream>
#include <cstdio>
#include <cstdint>
#include <vector>
#include <algorithm>

using namespace fixedmath;
typedef int64_t i64;
static const char* g_entry = "";
static i64 g_a = 0, g_b = 0;
static unsigned long long g_errors = 0, g_calls = 0;
extern "C" void __asan_on_error()
  {
  ++g_errors;
  if( g_errors <= 40 ) std::fprintf(stdout, "ASAN-ERROR entry=%s a=%lld b=%lld\n", g_entry, static_cast<long long>(g_a), static_cast<long long>(g_b));
  std::fflush(stdout);
  }
extern "C" const char* __asan_default_options() { return "halt_on_error=0:detect_leaks=0:print_summary=0"; }

static std::vector<i64> S_set(int w, int r)
  {
  const i64 MAXV = 0x7ffffffffffffffell;
  std::vector<i64> out;
  for( int e = 0; e <= 63; ++e ) for( i64 m = 0; m < (1ll << w); ++m )
    {
    __int128 base = static_cast<__int128>(m) << e;
    if( base > (static_cast<__int128>(1) << 63) ) continue;
    for( int d = -r; d <= r; ++d ) for( int sg = 0; sg < 2; ++sg ) { __int128 v = (sg ? -base : base) + d; if( v >= -MAXV && v <= MAXV ) out.push_back(static_cast<i64>(v)); }
    }
  out.push_back(0x7fffffffffffffffll); out.push_back(-0x7fffffffffffffffll);
  std::sort(out.begin(), out.end()); out.erase(std::unique(out.begin(), out.end()), out.end());
  return out;
  }
static volatile i64 sink;

int main(int argc, char** argv)
  {
  bool thorough = argc > 1 && argv[1][0] == 't';
  std::vector<i64> S = S_set(thorough ? 8 : 6, 4);
  i64 D = thorough ? (1 << 22) : (1 << 17);
  for( i64 d = -D; d <= D; ++d ) S.push_back(d);
  // around every tangent-table entry (the break points of the binary search) and every magnitude
  for( unsigned i = 0; i < 256; ++i ) for( i64 d = -3; d <= 3; ++d ) S.push_back(tan_tab(static_cast<uint8_t>(i)).v + d);
  std::vector<i64> Sp = S_set(thorough ? 4 : 3, 1);
  std::vector<i64> ang;
  for( i64 x : S_set(6, 4) ) ang.push_back(static_cast<int32_t>(static_cast<uint32_t>(static_cast<uint64_t>(x))));
  for( i64 d = -(1 << 17); d <= (1 << 17); ++d ) ang.push_back(d);
  for( i64 d : ang )
    {
    g_a = d; g_entry = "sin_angle_aprox"; sink = sin_angle_aprox(static_cast<int32_t>(d)).v; g_entry = "cos_angle_aprox"; sink = cos_angle_aprox(static_cast<int32_t>(d)).v; g_calls += 2;
    }
  for( i64 x : S )
    {
    g_a = x;
    g_entry = "sqrt_aprox"; sink = sqrt_aprox(as_fixed(x)).v;
    g_entry = "atan_index_aprox"; sink = atan_index_aprox(as_fixed(x)).v;
    g_entry = "atan_aprox"; sink = atan_aprox(as_fixed(x)).v;
    g_calls += 3;
    }
  g_entry = "operator<< (std::ostream, fixed_t)";
  { std::vector<i64> Ss = S_set(6, 2); for( i64 e = 1; e < 1000000000000000000ll; e *= 10 ) for( i64 d = -1; d <= 1; ++d ) { Ss.push_back((e + d) * 65536); Ss.push_back(-(e + d) * 65536); Ss.push_back(e + d); Ss.push_back(-(e + d)); }
    size_t total = 0;
    for( i64 x : Ss ) { g_a = x; std::ostringstream os; os << as_fixed(x); total += os.str().size(); ++g_calls; }
    sink = static_cast<i64>(total); }
  g_entry = "hypot_aprox";
  for( i64 a : Sp ) for( i64 b : Sp ) { g_a = a; g_b = b; sink = hypot_aprox(as_fixed(a), as_fixed(b)).v; ++g_calls; }
  g_b = 0;
  g_entry = "sin_angle_tab"; for( unsigned i = 0; i <= 360; ++i ) { g_a = i; sink = sin_angle_tab(static_cast<uint16_t>(i)).v; ++g_calls; }
  g_entry = "cos_angle_tab"; for( unsigned i = 0; i <= 360; ++i ) { g_a = i; sink = cos_angle_tab(static_cast<uint16_t>(i)).v; ++g_calls; }
  g_entry = "tan_tab"; for( unsigned i = 0; i < 256; ++i ) { g_a = i; sink = tan_tab(static_cast<uint8_t>(i)).v; ++g_calls; }
  g_entry = "square_root_tab"; for( unsigned i = 0; i < 256; ++i ) { g_a = i; sink = square_root_tab(static_cast<uint8_t>(i)); ++g_calls; }
  std::fprintf(stdout, "ASAN-LANE calls=%llu errors=%llu\n", g_calls, g_errors);
  return 0;
  }
