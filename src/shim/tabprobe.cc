// Index probe: includes ONLY the public header of /repo and supplies its own definitions of the two
// table accessors that the inline sin_angle_aprox / cos_angle_aprox call, so that the index the library
// computes for an angle can be observed without ever performing an out-of-bounds read.
#include <fixedmath/math.h>
#include "api.h"
namespace fixedmath
  {
  fixed_t sin_angle_tab( uint16_t index ) noexcept { return as_fixed(static_cast<fixed_internal>(index)); }
  fixed_t cos_angle_tab( uint16_t index ) noexcept { return as_fixed(static_cast<fixed_internal>(index)); }
  }
#define FM_EXPORT extern "C" __attribute__((visibility("default")))
FM_EXPORT i64 fm_angle_index(int cosine, int32_t angle)
  { return cosine ? fixedmath::cos_angle_aprox(angle).v : fixedmath::sin_angle_aprox(angle).v; }
FM_EXPORT void fm_angle_index_range(int cosine, int32_t start, size_t n, i64* out)
  {
  if(cosine) for(size_t i=0;i<n;++i) out[i] = fixedmath::cos_angle_aprox(static_cast<int32_t>(static_cast<uint32_t>(start) + static_cast<uint32_t>(i))).v;
  else       for(size_t i=0;i<n;++i) out[i] = fixedmath::sin_angle_aprox(static_cast<int32_t>(static_cast<uint32_t>(start) + static_cast<uint32_t>(i))).v;
  }
