// Per-configuration shim: thin extern "C" wrappers around every public entry point of
// fixed_math, compiled from /repo's working tree (headers + fixed_lib/src/fixed_math.cc)
// with the flags of ONE build configuration. The explorer dlopen()s it. No oracle code here.
#include <fixedmath/fixed_math.hpp>
#include <fixedmath/iostream.h>
#include <sstream>
#include <cstring>
#include <cerrno>
#include <utility>
#include <array>
#include "api.h"

#ifndef FM_CFG
#define FM_CFG "unknown"
#endif
#define FM_EXPORT extern "C" __attribute__((visibility("default")))
#define FM_NOINLINE [[gnu::noinline]]
#define FM_INLINE [[gnu::always_inline]] inline

using namespace fixedmath;
namespace {

FM_INLINE fixed_t fx(i64 v) noexcept { return as_fixed(v); }

template<typename T> FM_INLINE T from_bits(u64 bits) noexcept
  {
  if constexpr (std::is_same_v<T,float>) { uint32_t b = static_cast<uint32_t>(bits); float f; std::memcpy(&f,&b,4); return f; }
  else if constexpr (std::is_same_v<T,double>) { double d; std::memcpy(&d,&bits,8); return d; }
  else return static_cast<T>(bits);
  }
template<typename T> FM_INLINE u64 to_bits(T v) noexcept
  {
  if constexpr (std::is_same_v<T,float>) { uint32_t b; std::memcpy(&b,&v,4); return b; }
  else if constexpr (std::is_same_v<T,double>) { u64 b; std::memcpy(&b,&v,8); return b; }
  else if constexpr (std::is_same_v<T,fixed_t>) return static_cast<u64>(v.v);
  else return static_cast<u64>(static_cast<i64>(v));   // sign- or zero-extended
  }

//---------------------------------------------------------------- unary
template<int OP> FM_INLINE i64 un_body(i64 a) noexcept
  {
  if constexpr (OP==U_NEG) return (-fx(a)).v;
  else if constexpr (OP==U_ABS) return abs(fx(a)).v;
  else if constexpr (OP==U_ISNAN) return isnan(fx(a)) ? 1 : 0;
  else if constexpr (OP==U_FLOOR) return floor(fx(a)).v;
  else if constexpr (OP==U_CEIL) return ceil(fx(a)).v;
  else if constexpr (OP==U_SIN) return sin(fx(a)).v;
  else if constexpr (OP==U_COS) return cos(fx(a)).v;
  else if constexpr (OP==U_TAN) return tan(fx(a)).v;
  else if constexpr (OP==U_ATAN) return atan(fx(a)).v;
  else if constexpr (OP==U_ASIN) return asin(fx(a)).v;
  else if constexpr (OP==U_ACOS) return acos(fx(a)).v;
  else if constexpr (OP==U_SQRT) return sqrt(fx(a)).v;
  else if constexpr (OP==U_SQRT_ABACUS) return detail::sqrt_abacus(fx(a)).v;
  else if constexpr (OP==U_SQRT_STD) return detail::sqrt_std_math(fx(a)).v;
  else if constexpr (OP==U_SQRT_APROX) return sqrt_aprox(fx(a)).v;
  else if constexpr (OP==U_ATAN_INDEX_APROX) return atan_index_aprox(fx(a)).v;
  else if constexpr (OP==U_ATAN_APROX) return atan_aprox(fx(a)).v;
  else if constexpr (OP==U_SIN_ANGLE_FX) return sin_angle(fx(a)).v;
  else if constexpr (OP==U_COS_ANGLE_FX) return cos_angle(fx(a)).v;
  else if constexpr (OP==U_TAN_ANGLE_FX) return tan_angle(fx(a)).v;
  else if constexpr (OP==U_ADDEQ_SELF) { fixed_t x{fx(a)}; x += x; return x.v; }
  else if constexpr (OP==U_SUBEQ_SELF) { fixed_t x{fx(a)}; x -= x; return x.v; }
  else if constexpr (OP==U_MULEQ_SELF) { fixed_t x{fx(a)}; x *= x; return x.v; }
  else if constexpr (OP==U_DIVEQ_SELF) { fixed_t x{fx(a)}; x /= x; return x.v; }
  else return 0;
  }
template<int OP> FM_NOINLINE i64 un_call(i64 a) noexcept { return un_body<OP>(a); }
template<int OP> FM_NOINLINE void un_range(i64 s, size_t n, i64* out) noexcept
  { for(size_t i=0;i<n;++i) out[i] = un_body<OP>(s + static_cast<i64>(i)); }
template<int OP> FM_NOINLINE void un_batch(const i64* a, size_t n, i64* out) noexcept
  { for(size_t i=0;i<n;++i) out[i] = un_body<OP>(a[i]); }

//---------------------------------------------------------------- binary
template<int OP> FM_INLINE i64 bin_body(i64 a, i64 b) noexcept
  {
  if constexpr (OP==B_ADD) return (fx(a) + fx(b)).v;
  else if constexpr (OP==B_SUB) return (fx(a) - fx(b)).v;
  else if constexpr (OP==B_MUL) return (fx(a) * fx(b)).v;
  else if constexpr (OP==B_DIV) return (fx(a) / fx(b)).v;
  else if constexpr (OP==B_ADDEQ) { fixed_t x{fx(a)}; x += fx(b); return x.v; }
  else if constexpr (OP==B_SUBEQ) { fixed_t x{fx(a)}; x -= fx(b); return x.v; }
  else if constexpr (OP==B_MULEQ) { fixed_t x{fx(a)}; x *= fx(b); return x.v; }
  else if constexpr (OP==B_DIVEQ) { fixed_t x{fx(a)}; x /= fx(b); return x.v; }
  else if constexpr (OP==B_ATAN2) return atan2(fx(a), fx(b)).v;
  else if constexpr (OP==B_HYPOT) return hypot(fx(a), fx(b)).v;
  else if constexpr (OP==B_HYPOT_APROX) return hypot_aprox(fx(a), fx(b)).v;
  else if constexpr (OP==B_AND) return (fx(a) & fx(b)).v;
  else if constexpr (OP==B_EQ) return fx(a) == fx(b);
  else if constexpr (OP==B_NE) return fx(a) != fx(b);
  else if constexpr (OP==B_LT) return fx(a) <  fx(b);
  else if constexpr (OP==B_LE) return fx(a) <= fx(b);
  else if constexpr (OP==B_GT) return fx(a) >  fx(b);
  else if constexpr (OP==B_GE) return fx(a) >= fx(b);
  else return 0;
  }
template<int OP> FM_NOINLINE i64 bin_call(i64 a, i64 b) noexcept { return bin_body<OP>(a,b); }
template<int OP> FM_NOINLINE void bin_row(i64 a, const i64* b, size_t n, i64* out) noexcept
  { for(size_t i=0;i<n;++i) out[i] = bin_body<OP>(a, b[i]); }
template<int OP> FM_NOINLINE void bin_batch(const i64* a, const i64* b, size_t n, i64* out) noexcept
  { for(size_t i=0;i<n;++i) out[i] = bin_body<OP>(a[i], b[i]); }

template<template<int> class F, typename R, typename... A, int... I>
FM_INLINE R dispatch(int op, std::integer_sequence<int,I...>, A... a)
  {
  using fn = R(*)(A...);
  static constexpr fn tab[] = { &F<I>::call... };
  return tab[op](a...);
  }
template<int OP> struct UnCall { static i64 call(i64 a) { return un_call<OP>(a); } };
template<int OP> struct UnRange { static void call(i64 s, size_t n, i64* o) { un_range<OP>(s,n,o); } };
template<int OP> struct UnBatch { static void call(const i64* a, size_t n, i64* o) { un_batch<OP>(a,n,o); } };
template<int OP> struct BinCall { static i64 call(i64 a, i64 b) { return bin_call<OP>(a,b); } };
template<int OP> struct BinRow { static void call(i64 a, const i64* b, size_t n, i64* o) { bin_row<OP>(a,b,n,o); } };
template<int OP> struct BinBatch { static void call(const i64* a, const i64* b, size_t n, i64* o) { bin_batch<OP>(a,b,n,o); } };

//---------------------------------------------------------------- conversions
template<int HOW, typename T> FM_INLINE i64 from_int_body(u64 bits) noexcept
  {
  T n { from_bits<T>(bits) };
  if constexpr (HOW==FI_CTOR) return fixed_t{n}.v;
  else if constexpr (HOW==FI_INTEGRAL_TO_FIXED) return integral_to_fixed(n).v;
  else return make_fixed(n).v;
  }
template<int HOW, typename T> FM_INLINE u64 to_int_body(i64 a) noexcept
  {
  if constexpr (HOW==TI_FIXED_TO_INTEGRAL) return to_bits<T>(fixed_to_integral<T>(fx(a)));
  else if constexpr (HOW==TI_STATIC_CAST) return to_bits<T>(static_cast<T>(fx(a)));
  else return to_bits<T>(fixed_to_arithmetic<T>(fx(a)));
  }
template<int HOW, typename T> FM_INLINE i64 from_fp_body(u64 bits) noexcept
  {
  T v { from_bits<T>(bits) };
  if constexpr (HOW==FF_CTOR) return fixed_t{v}.v;
  else if constexpr (HOW==FF_FLOATING_POINT_TO_FIXED) return floating_point_to_fixed(v).v;
  else return make_fixed(v).v;
  }
template<int HOW, typename T> FM_INLINE u64 to_fp_body(i64 a) noexcept
  {
  if constexpr (HOW==TF_FIXED_TO_FLOATING_POINT) return to_bits<T>(fixed_to_floating_point<T>(fx(a)));
  else return to_bits<T>(static_cast<T>(fx(a)));
  }

template<typename F> FM_INLINE auto with_int_type(int type, F && f)
  {
  switch(type)
    {
    case T_I8: return f(int8_t{}); case T_I16: return f(int16_t{}); case T_I32: return f(int32_t{});
    case T_I64: return f(int64_t{}); case T_U8: return f(uint8_t{}); case T_U16: return f(uint16_t{});
    case T_U32: return f(uint32_t{}); case T_LL: return f(static_cast<long long>(0)); case T_ULL: return f(static_cast<unsigned long long>(0));
    default: return f(uint64_t{});
    }
  }
template<typename F> FM_INLINE auto with_how3(int how, F && f)
  {
  switch(how) { case 0: return f(std::integral_constant<int,0>{}); case 1: return f(std::integral_constant<int,1>{});
                default: return f(std::integral_constant<int,2>{}); }
  }
template<typename F> FM_INLINE auto with_how2(int how, F && f)
  {
  switch(how) { case 0: return f(std::integral_constant<int,0>{}); default: return f(std::integral_constant<int,1>{}); }
  }

//---------------------------------------------------------------- mixed operators
template<int OP, typename T, int ORDER> FM_INLINE u64 mixed_body(i64 a, u64 tbits) noexcept
  {
  T t { from_bits<T>(tbits) };
  fixed_t x { fx(a) };
  if constexpr (ORDER==O_FIX_T)
    {
    if constexpr (OP==M_ADD) return to_bits(x + t);
    else if constexpr (OP==M_SUB) return to_bits(x - t);
    else if constexpr (OP==M_MUL) return to_bits(x * t);
    else return to_bits(x / t);
    }
  else if constexpr (ORDER==O_T_FIX)
    {
    if constexpr (OP==M_ADD) return to_bits(t + x);
    else if constexpr (OP==M_SUB) return to_bits(t - x);
    else if constexpr (OP==M_MUL) return to_bits(t * x);
    else return to_bits(t / x);
    }
  else
    {
    if constexpr (std::is_same_v<T,double>) return 0;   // fixed op= double does not compile; not part of the API
    else
      {
      if constexpr (OP==M_ADD) x += t;
      else if constexpr (OP==M_SUB) x -= t;
      else if constexpr (OP==M_MUL) x *= t;
      else x /= t;
      return to_bits(x);
      }
    }
  }
template<int OP, typename T, int ORDER> FM_NOINLINE u64 mixed_call(i64 a, u64 t) noexcept { return mixed_body<OP,T,ORDER>(a,t); }
template<int OP, typename T, int ORDER> FM_NOINLINE void mixed_col(const i64* a, size_t n, u64 t, u64* out) noexcept
  { for(size_t i=0;i<n;++i) out[i] = mixed_body<OP,T,ORDER>(a[i], t); }

template<typename F> FM_INLINE auto with_any_type(int type, F && f)
  {
  switch(type)
    {
    case T_I8: return f(int8_t{}); case T_I16: return f(int16_t{}); case T_I32: return f(int32_t{});
    case T_I64: return f(int64_t{}); case T_U8: return f(uint8_t{}); case T_U16: return f(uint16_t{});
    case T_U32: return f(uint32_t{}); case T_U64: return f(uint64_t{}); case T_F32: return f(float{});
    case T_LL: return f(static_cast<long long>(0)); case T_ULL: return f(static_cast<unsigned long long>(0));
    default: return f(double{});
    }
  }
template<typename F> FM_INLINE auto with_c4(int v, F && f)
  {
  switch(v) { case 0: return f(std::integral_constant<int,0>{}); case 1: return f(std::integral_constant<int,1>{});
              case 2: return f(std::integral_constant<int,2>{}); default: return f(std::integral_constant<int,3>{}); }
  }

//---------------------------------------------------------------- degree helpers
template<int FN, typename T> FM_NOINLINE i64 xangle_call(u64 bits) noexcept
  {
  T d { from_bits<T>(bits) };
  if constexpr (FN==A_SIN) return sin_angle(d).v;
  else if constexpr (FN==A_COS) return cos_angle(d).v;
  else return tan_angle(d).v;
  }

//---------------------------------------------------------------- call-site shapes for + and -
constexpr i64 I64MAX = 0x7fffffffffffffffll;
constexpr i64 KS[] = {
  0, 1, -1, 2, -2, 65536, -65536, 65537, -65535,
  1ll<<31, -(1ll<<31), 1ll<<32, -(1ll<<32), 1ll<<47, -(1ll<<47), 1ll<<48, -(1ll<<48),
  1ll<<62, -(1ll<<62), (1ll<<62)+1, -(1ll<<62)-1, (1ll<<62)-1, -(1ll<<62)+1,
  0x7fffffffffff0000ll, -0x7fffffffffff0000ll,
  I64MAX-1, -(I64MAX-1), I64MAX-2, -(I64MAX-2), I64MAX-65536, -(I64MAX-65536),
  0x5555555555555555ll, -0x5555555555555555ll, 0x2aaaaaaaaaaaaaaall, 205887, -205887 };
constexpr int NK = sizeof(KS)/sizeof(KS[0]);
constexpr int NGUARD = 8;

template<int G> FM_INLINE bool guard_test(i64 a, i64 b) noexcept
  {
  if constexpr (G==0) return a > 0 && b > 0;
  else if constexpr (G==1) return a < 0 && b < 0;
  else if constexpr (G==2) return a > 0 && b < 0;
  else if constexpr (G==3) return a < 0 && b > 0;
  else if constexpr (G==4) return a >= 0;
  else if constexpr (G==5) return b >= 0;
  else if constexpr (G==6) return a > b;
  else return a < (1ll<<62) && a > -(1ll<<62) && b < (1ll<<62) && b > -(1ll<<62);
  }
template<int OP> FM_INLINE i64 addsub(i64 a, i64 b) noexcept
  {
  if constexpr (OP==B_ADD) return (fx(a) + fx(b)).v;
  else if constexpr (OP==B_SUB) return (fx(a) - fx(b)).v;
  else if constexpr (OP==B_ADDEQ) { fixed_t x{fx(a)}; x += fx(b); return x.v; }
  else { fixed_t x{fx(a)}; x -= fx(b); return x.v; }
  }
template<int OP, int KIND, int P> FM_INLINE i64 shape_body(i64 a, i64 b) noexcept
  {
  if constexpr (KIND==SH_VK) return addsub<OP>(a, KS[P]);
  else if constexpr (KIND==SH_KV) return addsub<OP>(KS[P], a);
  else if constexpr (KIND==SH_SELF)
    {
    // compound forms use the SAME object on both sides, so that an implementation reading its operand after writing the result is exposed
    if constexpr (OP==B_ADDEQ) { fixed_t x{fx(a)}; x += x; return x.v; }
    else if constexpr (OP==B_SUBEQ) { fixed_t x{fx(a)}; x -= x; return x.v; }
    else return addsub<OP>(a, a);
    }
  else
    {
    if( guard_test<P>(a,b) )
      return addsub<OP>(a, b);          // compiled with the caller's range knowledge
    return bin_call<OP>(a, b);          // out-of-line generic path
    }
  }
template<int OP, int KIND, int P> FM_NOINLINE i64 shape_call(i64 a, i64 b) noexcept { return shape_body<OP,KIND,P>(a,b); }
template<int OP, int KIND, int P> FM_NOINLINE void shape_loop(const i64* a, const i64* b, size_t n, i64* out) noexcept
  { for(size_t i=0;i<n;++i) out[i] = shape_body<OP,KIND,P>(a[i], b[i]); }

struct shape_entry
  {
  fm_shape_info info;
  i64 (*call)(i64,i64);
  void (*loop)(const i64*, const i64*, size_t, i64*);
  };
template<int OP, int KIND, int P> constexpr shape_entry make_shape() noexcept
  {
  return shape_entry{ fm_shape_info{ OP, KIND, (KIND==SH_VK||KIND==SH_KV) ? KS[P] : 0, KIND==SH_GUARD ? P : -1, KIND==SH_GUARD ? 1 : 0 },
                      &shape_call<OP,KIND,P>, &shape_loop<OP,KIND,P> };
  }
constexpr int PER_OP = NK + NK + 1 + NGUARD;
template<int OP, int J> constexpr shape_entry shape_at() noexcept
  {
  if constexpr (J < NK) return make_shape<OP,SH_VK,J>();
  else if constexpr (J < 2*NK) return make_shape<OP,SH_KV,J-NK>();
  else if constexpr (J == 2*NK) return make_shape<OP,SH_SELF,0>();
  else return make_shape<OP,SH_GUARD,J-2*NK-1>();
  }
constexpr int SHAPE_OPS[4] = { B_ADD, B_SUB, B_ADDEQ, B_SUBEQ };
template<int... I> constexpr auto build_shapes(std::integer_sequence<int,I...>) noexcept
  {
  return std::array<shape_entry,sizeof...(I)>{{ shape_at<SHAPE_OPS[I/PER_OP], I%PER_OP>()... }};
  }
constexpr auto SHAPES = build_shapes(std::make_integer_sequence<int,4*PER_OP>{});

} // namespace

//================================================================== exported
FM_EXPORT i64 fm_un(int op, i64 a) { return dispatch<UnCall,i64>(op, std::make_integer_sequence<int,U_COUNT>{}, a); }
FM_EXPORT void fm_un_range(int op, i64 s, size_t n, i64* out) { dispatch<UnRange,void>(op, std::make_integer_sequence<int,U_COUNT>{}, s, n, out); }
FM_EXPORT void fm_un_batch(int op, const i64* a, size_t n, i64* out) { dispatch<UnBatch,void>(op, std::make_integer_sequence<int,U_COUNT>{}, a, n, out); }
FM_EXPORT i64 fm_bin(int op, i64 a, i64 b) { return dispatch<BinCall,i64>(op, std::make_integer_sequence<int,B_COUNT>{}, a, b); }
FM_EXPORT void fm_bin_row(int op, i64 a, const i64* b, size_t n, i64* out) { dispatch<BinRow,void>(op, std::make_integer_sequence<int,B_COUNT>{}, a, b, n, out); }
FM_EXPORT void fm_bin_batch(int op, const i64* a, const i64* b, size_t n, i64* out) { dispatch<BinBatch,void>(op, std::make_integer_sequence<int,B_COUNT>{}, a, b, n, out); }

// the same out-of-line calls with the thread's errno preset by the caller (a stale EDOM / ERANGE left behind by unrelated libm
// calls of the application): the environment is an input, and no result may depend on it
FM_EXPORT i64 fm_un_env(int op, i64 a, int errno_value) { errno = errno_value; return dispatch<UnCall,i64>(op, std::make_integer_sequence<int,U_COUNT>{}, a); }
FM_EXPORT i64 fm_bin_env(int op, i64 a, i64 b, int errno_value) { errno = errno_value; return dispatch<BinCall,i64>(op, std::make_integer_sequence<int,B_COUNT>{}, a, b); }

namespace {
FM_NOINLINE i64 shl_call(i64 a, int r) noexcept { return (fx(a) << r).v; }
FM_NOINLINE i64 shr_call(i64 a, int r) noexcept { return (fx(a) >> r).v; }
}
FM_EXPORT i64 fm_shift(int left, i64 a, int r) { return left ? shl_call(a,r) : shr_call(a,r); }
FM_EXPORT void fm_shift_range(int left, i64 a, int r0, size_t n, i64* out)
  {
  if(left) for(size_t i=0;i<n;++i) out[i] = (fx(a) << static_cast<int>(r0 + static_cast<i64>(i))).v;
  else     for(size_t i=0;i<n;++i) out[i] = (fx(a) >> static_cast<int>(r0 + static_cast<i64>(i))).v;
  }

// the shift count written with its own integral type (a size_t loop index, an uint8_t field, a long): no cast to int at the call site
namespace {
template<typename T> FM_NOINLINE void shift_typed(int left, i64 a, const i64* counts, size_t n, i64* out) noexcept
  {
  if(left) for(size_t i=0;i<n;++i) { T r { static_cast<T>(counts[i]) }; out[i] = (fx(a) << r).v; }
  else     for(size_t i=0;i<n;++i) { T r { static_cast<T>(counts[i]) }; out[i] = (fx(a) >> r).v; }
  }
}
FM_EXPORT void fm_shift_typed(int left, int ctype, i64 a, const i64* counts, size_t n, i64* out)
  {
  with_int_type(ctype, [&](auto t) -> int { shift_typed<decltype(t)>(left, a, counts, n, out); return 0; });
  }

FM_EXPORT i64 fm_from_int(int how, int type, u64 bits)
  {
  return with_how3(how, [&](auto h){ return with_int_type(type, [&](auto t) -> i64 {
    return from_int_body<decltype(h)::value, decltype(t)>(bits); }); });
  }
FM_EXPORT void fm_from_int_range(int how, int type, u64 start, size_t n, i64* out)
  {
  with_how3(how, [&](auto h){ return with_int_type(type, [&](auto t) -> int {
    for(size_t i=0;i<n;++i) out[i] = from_int_body<decltype(h)::value, decltype(t)>(start + i);
    return 0; }); });
  }
FM_EXPORT u64 fm_to_int(int how, int type, i64 a)
  {
  return with_how3(how, [&](auto h){ return with_int_type(type, [&](auto t) -> u64 {
    return to_int_body<decltype(h)::value, decltype(t)>(a); }); });
  }
FM_EXPORT void fm_to_int_batch(int how, int type, const i64* a, size_t n, u64* out)
  {
  with_how3(how, [&](auto h){ return with_int_type(type, [&](auto t) -> int {
    for(size_t i=0;i<n;++i) out[i] = to_int_body<decltype(h)::value, decltype(t)>(a[i]);
    return 0; }); });
  }
FM_EXPORT i64 fm_from_fp(int how, int type, u64 bits)
  {
  return with_how3(how, [&](auto h) -> i64 {
    if(type==T_F32) return from_fp_body<decltype(h)::value,float>(bits);
    return from_fp_body<decltype(h)::value,double>(bits); });
  }
FM_EXPORT void fm_from_f32_range(int how, uint32_t start, size_t n, i64* out)
  {
  with_how3(how, [&](auto h) -> int {
    for(size_t i=0;i<n;++i) out[i] = from_fp_body<decltype(h)::value,float>(static_cast<uint32_t>(start + i));
    return 0; });
  }
FM_EXPORT void fm_from_fp_batch(int how, int type, const u64* bits, size_t n, i64* out)
  {
  with_how3(how, [&](auto h) -> int {
    if(type==T_F32) for(size_t i=0;i<n;++i) out[i] = from_fp_body<decltype(h)::value,float>(bits[i]);
    else            for(size_t i=0;i<n;++i) out[i] = from_fp_body<decltype(h)::value,double>(bits[i]);
    return 0; });
  }
FM_EXPORT u64 fm_to_fp(int how, int type, i64 a)
  {
  return with_how2(how, [&](auto h) -> u64 {
    if(type==T_F32) return to_fp_body<decltype(h)::value,float>(a);
    return to_fp_body<decltype(h)::value,double>(a); });
  }
FM_EXPORT void fm_to_fp_batch(int how, int type, const i64* a, size_t n, u64* out)
  {
  with_how2(how, [&](auto h) -> int {
    if(type==T_F32) for(size_t i=0;i<n;++i) out[i] = to_fp_body<decltype(h)::value,float>(a[i]);
    else            for(size_t i=0;i<n;++i) out[i] = to_fp_body<decltype(h)::value,double>(a[i]);
    return 0; });
  }
FM_EXPORT void fm_to_fp_range(int how, int type, i64 start, size_t n, u64* out)
  {
  with_how2(how, [&](auto h) -> int {
    if(type==T_F32) for(size_t i=0;i<n;++i) out[i] = to_fp_body<decltype(h)::value,float>(start + static_cast<i64>(i));
    else            for(size_t i=0;i<n;++i) out[i] = to_fp_body<decltype(h)::value,double>(start + static_cast<i64>(i));
    return 0; });
  }

FM_EXPORT u64 fm_mixed(int op, int type, int order, i64 a, u64 tbits)
  {
  return with_c4(op, [&](auto o){ return with_c4(order, [&](auto r){ return with_any_type(type, [&](auto t) -> u64 {
    constexpr int ORD = decltype(r)::value > 2 ? 2 : decltype(r)::value;
    return mixed_call<decltype(o)::value, decltype(t), ORD>(a, tbits); }); }); });
  }
FM_EXPORT void fm_mixed_col(int op, int type, int order, const i64* a, size_t n, u64 tbits, u64* out)
  {
  with_c4(op, [&](auto o){ return with_c4(order, [&](auto r){ return with_any_type(type, [&](auto t) -> int {
    constexpr int ORD = decltype(r)::value > 2 ? 2 : decltype(r)::value;
    mixed_col<decltype(o)::value, decltype(t), ORD>(a, n, tbits, out); return 0; }); }); });
  }

FM_EXPORT i64 fm_angle_to_radians(int type, u64 bits)
  {
  return with_int_type(type, [&](auto t) -> i64 { return angle_to_radians(from_bits<decltype(t)>(bits)).v; });
  }
FM_EXPORT void fm_angle_to_radians_range(int type, u64 start, size_t n, i64* out)
  {
  with_int_type(type, [&](auto t) -> int {
    for(size_t i=0;i<n;++i) out[i] = angle_to_radians(from_bits<decltype(t)>(start + i)).v;
    return 0; });
  }
FM_EXPORT i64 fm_xangle(int fn, int type, u64 bits)
  {
  return with_c4(fn, [&](auto f) -> i64 {
    constexpr int FN = decltype(f)::value > 2 ? 2 : decltype(f)::value;
    switch(type)
      {
      case T_I8: return xangle_call<FN,int8_t>(bits); case T_I16: return xangle_call<FN,int16_t>(bits);
      case T_I32: return xangle_call<FN,int32_t>(bits); case T_I64: return xangle_call<FN,int64_t>(bits);
      case T_U8: return xangle_call<FN,uint8_t>(bits); case T_U16: return xangle_call<FN,uint16_t>(bits);
      case T_U32: return xangle_call<FN,uint32_t>(bits); case T_U64: return xangle_call<FN,uint64_t>(bits);
      case T_F32: return xangle_call<FN,float>(bits);
      case T_LL: return xangle_call<FN,long long>(bits); case T_ULL: return xangle_call<FN,unsigned long long>(bits);
      default: return un_call<FN==A_SIN ? U_SIN_ANGLE_FX : FN==A_COS ? U_COS_ANGLE_FX : U_TAN_ANGLE_FX>(static_cast<i64>(bits));
      }
    });
  }
FM_EXPORT i64 fm_angle_aprox(int cosine, int32_t angle)
  { return cosine ? cos_angle_aprox(angle).v : sin_angle_aprox(angle).v; }
FM_EXPORT void fm_angle_aprox_range(int cosine, int32_t start, size_t n, i64* out)
  {
  if(cosine) for(size_t i=0;i<n;++i) out[i] = cos_angle_aprox(static_cast<int32_t>(static_cast<uint32_t>(start) + static_cast<uint32_t>(i))).v;
  else       for(size_t i=0;i<n;++i) out[i] = sin_angle_aprox(static_cast<int32_t>(static_cast<uint32_t>(start) + static_cast<uint32_t>(i))).v;
  }
// the angle functions with a literal argument (visible to the optimiser, __builtin_constant_p)
namespace {
constexpr int32_t ANGK[] = { 0, 1, 30, 45, 89, 90, 91, 179, 180, 181, 269, 270, 271, 359, 360, 361, 450, 720, 65446, 1 << 20, 2147483647,
                             -1, -30, -45, -89, -90, -91, -179, -180, -181, -269, -270, -271, -359, -360, -361, -450, -720, -65446, -(1 << 20), -2147483647 - 1 };
constexpr int NANGK = sizeof(ANGK)/sizeof(ANGK[0]);
template<int C, int I> FM_NOINLINE i64 angle_constarg() noexcept { if constexpr (C) return cos_angle_aprox(ANGK[I]).v; else return sin_angle_aprox(ANGK[I]).v; }
template<int... I> constexpr auto angle_constarg_table(std::integer_sequence<int,I...>) noexcept
  { return std::array<i64(*)(),sizeof...(I)>{{ &angle_constarg<I / NANGK, I % NANGK>... }}; }
constexpr auto ANGLE_CONSTARG = angle_constarg_table(std::make_integer_sequence<int, 2 * NANGK>{});
}
// the angle carried by another integral type than int32_t (an int8_t field, a size_t counter)
FM_EXPORT i64 fm_angle_aprox_typed(int cosine, int type, u64 bits)
  {
  return with_int_type(type, [&](auto t) -> i64 { auto d = from_bits<decltype(t)>(bits); return cosine ? cos_angle_aprox(d).v : sin_angle_aprox(d).v; });
  }
FM_EXPORT int fm_angle_constarg_count(void) { return NANGK; }
FM_EXPORT int32_t fm_angle_constarg_value(int idx) { return ANGK[idx]; }
FM_EXPORT i64 fm_angle_constarg(int cosine, int idx) { return ANGLE_CONSTARG[static_cast<size_t>((cosine ? 1 : 0) * NANGK + idx)](); }

// 128-bit integral operands: integral types only in the GNU dialects (std::is_integral_v<__int128> is false under -std=c++NN)
#if defined(__SIZEOF_INT128__) && !defined(__STRICT_ANSI__)
namespace {
template<int OP, typename T, int ORDER> FM_NOINLINE i64 mixed128(i64 a, T t) noexcept
  {
  fixed_t x { fx(a) };
  if constexpr (ORDER==O_FIX_T) { if constexpr (OP==M_MUL) return (x * t).v; else return (x / t).v; }
  else if constexpr (ORDER==O_T_FIX) { if constexpr (OP==M_MUL) return (t * x).v; else return (x / t).v; }
  else { if constexpr (OP==M_MUL) x *= t; else x /= t; return x.v; }
  }
}
FM_EXPORT int fm_has_int128(void) { return 1; }
FM_EXPORT i64 fm_mixed128(int op, int is_unsigned, int order, i64 a, u64 hi, u64 lo)
  {
  unsigned __int128 bits = (static_cast<unsigned __int128>(hi) << 64) | lo;
  return with_c4(order, [&](auto r) -> i64 {
    constexpr int ORD = decltype(r)::value > 2 ? 2 : decltype(r)::value;
    (void)is_unsigned;     // unsigned __int128 operands do not compile with the library (no signed type of twice the size): signed only
    if( op == M_MUL ) return mixed128<M_MUL, __int128, ORD>(a, static_cast<__int128>(bits));
    return mixed128<M_DIV, __int128, ORD>(a, static_cast<__int128>(bits)); });
  }
#else
FM_EXPORT int fm_has_int128(void) { return 0; }
FM_EXPORT i64 fm_mixed128(int, int, int, i64, u64, u64) { return 0; }
#endif

// the streaming operator of <fixedmath/iostream.h>
FM_EXPORT size_t fm_stream(i64 a, char* buf, size_t cap)
  {
  std::ostringstream os; os << fx(a);
  std::string s { os.str() };
  size_t n = s.size() < cap ? s.size() : cap;
  std::memcpy(buf, s.data(), n);
  return s.size();
  }

FM_EXPORT i64 fm_table(int which, unsigned index)
  {
  switch(which)
    {
    case TB_SIN_ANGLE: return sin_angle_tab(static_cast<uint16_t>(index)).v;
    case TB_COS_ANGLE: return cos_angle_tab(static_cast<uint16_t>(index)).v;
    case TB_TAN: return tan_tab(static_cast<uint8_t>(index)).v;
    default: return square_root_tab(static_cast<uint8_t>(index));
    }
  }

FM_EXPORT int fm_shape_count(void) { return static_cast<int>(SHAPES.size()); }
FM_EXPORT void fm_shape_get(int idx, fm_shape_info* out) { *out = SHAPES[static_cast<size_t>(idx)].info; }
FM_EXPORT i64 fm_shape_call(int idx, i64 a, i64 b) { return SHAPES[static_cast<size_t>(idx)].call(a,b); }
FM_EXPORT void fm_shape_batch(int idx, const i64* a, const i64* b, size_t n, i64* out) { SHAPES[static_cast<size_t>(idx)].loop(a,b,n,out); }

// ---- argument(s) known to the optimiser: the same entry point instantiated with compile-time-constant arguments
namespace {
constexpr i64 CK1[] = { 0, 1, -1, 65536, -65536, 131072, 3*65536, 98304, 32768, 39322, -39322, 90*65536, 205887, 102944, 51472, 1ll<<32, 1ll<<46, (1ll<<47)-1,
                        -(1ll<<40), 0x7ffffffffffffffell, -0x7ffffffffffffffell, 0x7fffffffffffffffll, -0x7fffffffffffffffll, 12345678901ll };
constexpr int NCK1 = sizeof(CK1)/sizeof(CK1[0]);
constexpr i64 CK2[] = { 0, 65536, -65536, 3, 3*65536+7, -(1ll<<33), (1ll<<46)+5, 0x7ffffffffffffffell, -0x7ffffffffffffffell, 1ll<<62 };
constexpr int NCK2 = sizeof(CK2)/sizeof(CK2[0]);
template<int OP, int KI> FM_NOINLINE i64 un_constarg() noexcept { return un_body<OP>(CK1[KI]); }
template<int OP, int KI, int KJ> FM_NOINLINE i64 bin_constarg() noexcept { return bin_body<OP>(CK2[KI], CK2[KJ]); }
template<int... I> constexpr auto un_constarg_table(std::integer_sequence<int,I...>) noexcept
  { return std::array<i64(*)(),sizeof...(I)>{{ &un_constarg<I / NCK1, I % NCK1>... }}; }
template<int... I> constexpr auto bin_constarg_table(std::integer_sequence<int,I...>) noexcept
  { return std::array<i64(*)(),sizeof...(I)>{{ &bin_constarg<I / (NCK2*NCK2), (I / NCK2) % NCK2, I % NCK2>... }}; }
constexpr auto UN_CONSTARG = un_constarg_table(std::make_integer_sequence<int, U_COUNT * NCK1>{});
constexpr auto BIN_CONSTARG = bin_constarg_table(std::make_integer_sequence<int, B_COUNT * NCK2 * NCK2>{});

// ---- comparisons of a result against constants evaluated IN THE SAME inlined scope as the call (a wrong optimiser hint
//      such as __builtin_unreachable / __builtin_assume inside the library folds these, although the stored value is right)
constexpr i64 CMPK[] = { 0, 1, -1, 65536, -65536, 0x7ffffffffffffffell, -0x7ffffffffffffffell, 0x7fffffffffffffffll, -0x7fffffffffffffffll,
                         1ll << 31, -(1ll << 31), 6553600000ll /* 100000.0 */, 1ll << 40 };     // whole numbers that do not fit a sign-extended 32-bit immediate
constexpr int NCMPK = sizeof(CMPK)/sizeof(CMPK[0]);
template<int... I> FM_INLINE u64 cmpmask_of(fixed_t y, std::integer_sequence<int,I...>) noexcept
  {
  u64 m = 0;
  ((m |= (static_cast<u64>(y < fx(CMPK[I])) << (3*I)) | (static_cast<u64>(y == fx(CMPK[I])) << (3*I+1)) | (static_cast<u64>(y > fx(CMPK[I])) << (3*I+2))), ...);
  m |= static_cast<u64>(isnan(y)) << (3*NCMPK);
  m |= static_cast<u64>(y >= fx(0)) << (3*NCMPK+1);
  m |= static_cast<u64>(y != fx(0)) << (3*NCMPK+2);
  return m;
  }
template<int OP> FM_NOINLINE u64 un_cmpmask(i64 a) noexcept { return cmpmask_of(fx(un_body<OP>(a)), std::make_integer_sequence<int,NCMPK>{}); }
template<int OP> FM_NOINLINE u64 bin_cmpmask(i64 a, i64 b) noexcept { return cmpmask_of(fx(bin_body<OP>(a, b)), std::make_integer_sequence<int,NCMPK>{}); }
template<int OP> struct UnMask { static u64 call(i64 a) { return un_cmpmask<OP>(a); } };
template<int OP> struct BinMask { static u64 call(i64 a, i64 b) { return bin_cmpmask<OP>(a, b); } };
}
// a comparison applied directly to the results of two library calls inside one inlined scope (the optimiser knows facts about
// both operands, e.g. that floor() results have no fraction bits)
namespace {
template<int OP, int K> FM_NOINLINE i64 cmp_results(i64 a, i64 b) noexcept
  {
  fixed_t x { fx(un_body<OP>(a)) }, y { fx(un_body<OP>(b)) };
  if constexpr (K==0) return x == y; else if constexpr (K==1) return x != y; else if constexpr (K==2) return x < y;
  else if constexpr (K==3) return x <= y; else if constexpr (K==4) return x > y; else return x >= y;
  }
template<int OP> i64 cmp_results_k(int k, i64 a, i64 b) noexcept
  {
  switch(k) { case 0: return cmp_results<OP,0>(a,b); case 1: return cmp_results<OP,1>(a,b); case 2: return cmp_results<OP,2>(a,b);
              case 3: return cmp_results<OP,3>(a,b); case 4: return cmp_results<OP,4>(a,b); default: return cmp_results<OP,5>(a,b); }
  }
}
FM_EXPORT i64 fm_cmp_results(int op, int k, i64 a, i64 b)
  {
  switch(op) { case U_FLOOR: return cmp_results_k<U_FLOOR>(k,a,b); case U_CEIL: return cmp_results_k<U_CEIL>(k,a,b);
               case U_NEG: return cmp_results_k<U_NEG>(k,a,b); default: return cmp_results_k<U_ABS>(k,a,b); }
  }
FM_EXPORT i64 fm_un_constarg(int op, int ki) { return UN_CONSTARG[static_cast<size_t>(op * NCK1 + ki)](); }
FM_EXPORT i64 fm_bin_constarg(int op, int ki, int kj) { return BIN_CONSTARG[static_cast<size_t>((op * NCK2 + ki) * NCK2 + kj)](); }
FM_EXPORT i64 fm_constarg_value(int binary, int ki) { return binary ? CK2[ki] : CK1[ki]; }
FM_EXPORT int fm_constarg_count(int binary) { return binary ? NCK2 : NCK1; }
FM_EXPORT u64 fm_un_cmpmask(int op, i64 a) { return dispatch<UnMask,u64>(op, std::make_integer_sequence<int,U_COUNT>{}, a); }
FM_EXPORT u64 fm_bin_cmpmask(int op, i64 a, i64 b) { return dispatch<BinMask,u64>(op, std::make_integer_sequence<int,B_COUNT>{}, a, b); }
FM_EXPORT i64 fm_cmpmask_const(int i) { return CMPK[i]; }
FM_EXPORT int fm_cmpmask_count(void) { return NCMPK; }

// two-step histories INSIDE one function body: the same object is converted / updated twice with a modification in between.
// A function that reads through 'this' or a reference but promises otherwise (gnu::const / gnu::pure) lets the optimiser
// reuse the first result or drop an update; single calls cannot show that.
namespace {
template<typename T> FM_NOINLINE void seq_conv(i64 a, i64 b, u64* r1, u64* r2) noexcept
  {
  fixed_t x { fx(a) };
  T v1 { static_cast<T>(x) };
  x = fx(b);
  T v2 { static_cast<T>(x) };
  *r1 = to_bits<T>(v1); *r2 = to_bits<T>(v2);
  }
// the same named object passed twice to a unary entry point, modified in between. The calls are written directly on the
// local object (no forwarding wrapper): that is the shape in which a by-reference callee with a false gnu::const is merged.
#define FM_SEQ2(EXPR) { i64 v1 = (EXPR); x = fx(b); i64 v2 = (EXPR); *r1 = v1; *r2 = v2; }
template<int OP> FM_NOINLINE void seq_un(i64 a, i64 b, i64* r1, i64* r2) noexcept
  {
  fixed_t x { fx(a) };
  if constexpr (OP==U_NEG) FM_SEQ2((-x).v)
  else if constexpr (OP==U_ABS) FM_SEQ2(abs(x).v)
  else if constexpr (OP==U_ISNAN) FM_SEQ2(isnan(x) ? 1 : 0)
  else if constexpr (OP==U_FLOOR) FM_SEQ2(floor(x).v)
  else if constexpr (OP==U_CEIL) FM_SEQ2(ceil(x).v)
  else if constexpr (OP==U_SIN) FM_SEQ2(sin(x).v)
  else if constexpr (OP==U_COS) FM_SEQ2(cos(x).v)
  else if constexpr (OP==U_TAN) FM_SEQ2(tan(x).v)
  else if constexpr (OP==U_ATAN) FM_SEQ2(atan(x).v)
  else if constexpr (OP==U_ASIN) FM_SEQ2(asin(x).v)
  else if constexpr (OP==U_ACOS) FM_SEQ2(acos(x).v)
  else if constexpr (OP==U_SQRT) FM_SEQ2(sqrt(x).v)
  else if constexpr (OP==U_SQRT_APROX) FM_SEQ2(sqrt_aprox(x).v)
  else if constexpr (OP==U_ATAN_INDEX_APROX) FM_SEQ2(atan_index_aprox(x).v)
  else if constexpr (OP==U_SIN_ANGLE_FX) FM_SEQ2(sin_angle(x).v)
  else if constexpr (OP==U_COS_ANGLE_FX) FM_SEQ2(cos_angle(x).v)
  else if constexpr (OP==U_TAN_ANGLE_FX) FM_SEQ2(tan_angle(x).v)
  else FM_SEQ2(un_body<OP>(x.v))
  }
#undef FM_SEQ2
template<int OP> struct SeqUn { static void call(i64 a, i64 b, i64* r1, i64* r2) { seq_un<OP>(a, b, r1, r2); } };
#define FM_STEP(OP, X, Y) if constexpr ((OP)==0) X += Y; else if constexpr ((OP)==1) X -= Y; else if constexpr ((OP)==2) X *= Y; else X /= Y;
template<int OP1, int OP2> FM_NOINLINE i64 seq_compound(i64 a, i64 b, i64 c) noexcept
  {
  fixed_t x { fx(a) };
  fixed_t const y { fx(b) }, z { fx(c) };
  FM_STEP(OP1, x, y)
  FM_STEP(OP2, x, z)
  return x.v;
  }
#undef FM_STEP
}
FM_EXPORT void fm_seq_conv(int type, i64 a, i64 b, u64* r1, u64* r2)
  {
  with_any_type(type, [&](auto t) -> int { seq_conv<decltype(t)>(a, b, r1, r2); return 0; });
  }
FM_EXPORT void fm_seq_un(int op, i64 a, i64 b, i64* r1, i64* r2) { dispatch<SeqUn,void>(op, std::make_integer_sequence<int,U_COUNT>{}, a, b, r1, r2); }
FM_EXPORT i64 fm_seq_compound(int op1, int op2, i64 a, i64 b, i64 c)
  {
  return with_c4(op1, [&](auto o1){ return with_c4(op2, [&](auto o2) -> i64 { return seq_compound<decltype(o1)::value, decltype(o2)::value>(a, b, c); }); });
  }

// values of the compiled table functions observed DURING static initialisation of this translation unit, which is linked
// before fixed_math.cc: a table that is filled by a dynamic initialiser is still empty here
namespace {
constexpr int EARLY_N = 14;
i64 early_value(int i) noexcept
  {
  switch(i)
    {
    case 0: return sin_angle_aprox(30).v; case 1: return cos_angle_aprox(60).v; case 2: return sin_angle_aprox(-90).v; case 3: return cos_angle_aprox(1234567).v;
    case 4: return sqrt_aprox(as_fixed(131072)).v; case 5: return sqrt_aprox(as_fixed(1ll<<36)).v; case 6: return atan_index_aprox(as_fixed(65536)).v; case 7: return atan_index_aprox(as_fixed(-30000)).v;
    case 8: return sin_angle_tab(90).v; case 9: return cos_angle_tab(0).v; case 10: return tan_tab(64).v; case 11: return square_root_tab(255);
    case 12: return hypot_aprox(as_fixed(3*65536), as_fixed(4*65536)).v; default: return atan_aprox(as_fixed(98304)).v;
    }
  }
struct early_probe_t { i64 v[EARLY_N]; early_probe_t() noexcept { for( int i = 0; i < EARLY_N; ++i ) v[i] = early_value(i); } };
early_probe_t early_probe;
}
FM_EXPORT i64 fm_early(int idx, int now) { return now ? early_value(idx) : early_probe.v[idx]; }
FM_EXPORT int fm_early_count(void) { return EARLY_N; }

FM_EXPORT int fm_probe_sqrt_algo(void)
  {
  // which algorithm does sqrt() run at RUN time in this configuration? decided by behaviour, not by assumption:
  // the two algorithms differ on many arguments (abacus truncates, std rounds); find one where they differ and compare.
  volatile i64 probes[] = { 2*65536, 3*65536, 5*65536, 7*65536, 131072+1, 10*65536 };
  for( i64 p : probes )
    {
    i64 a { detail::sqrt_abacus(fx(p)).v }, s { detail::sqrt_std_math(fx(p)).v }, r { un_call<U_SQRT>(p) };
    if( a != s ) return r == a ? 1 : r == s ? 2 : 0;
    }
  return 0;
  }
FM_EXPORT int fm_sqrt_constexpr_available(void) { return sqrt_constexpr_available ? 1 : 0; }
FM_EXPORT const char* fm_config(void) { return FM_CFG; }

#ifndef FM_SHIM_SANITIZED
FM_EXPORT u64 fm_ub_count(void) { return 0; }
FM_EXPORT const char* fm_ub_last(void) { return ""; }
FM_EXPORT void fm_ub_reset(void) {}
#endif
