// C ABI between the per-configuration shim (built from /repo's working tree) and the
// explorer (built once, never includes /repo). Nothing in this file depends on fixed_math.
#pragma once
#include <stdint.h>
#include <stddef.h>

typedef int64_t i64;
typedef uint64_t u64;

// unary fixed -> fixed (or bool as 0/1)
enum fm_un_op {
  U_NEG, U_ABS, U_ISNAN, U_FLOOR, U_CEIL,
  U_SIN, U_COS, U_TAN, U_ATAN, U_ASIN, U_ACOS,
  U_SQRT, U_SQRT_ABACUS, U_SQRT_STD,
  U_SQRT_APROX, U_ATAN_INDEX_APROX, U_ATAN_APROX,
  U_SIN_ANGLE_FX, U_COS_ANGLE_FX, U_TAN_ANGLE_FX,   // *_angle(fixed_t)
  U_ADDEQ_SELF, U_SUBEQ_SELF, U_MULEQ_SELF, U_DIVEQ_SELF,   // x op= x with the SAME object on both sides (aliasing)
  U_COUNT
};
// binary fixed x fixed -> fixed (or bool)
enum fm_bin_op {
  B_ADD, B_SUB, B_MUL, B_DIV, B_ADDEQ, B_SUBEQ, B_MULEQ, B_DIVEQ,
  B_ATAN2, B_HYPOT, B_HYPOT_APROX, B_AND,
  B_EQ, B_NE, B_LT, B_LE, B_GT, B_GE,
  B_COUNT
};
// arithmetic operand types
enum fm_type { T_I8, T_I16, T_I32, T_I64, T_U8, T_U16, T_U32, T_U64, T_F32, T_F64, T_COUNT,
               T_FIXED = 10,          // fixed_t carried as raw (only fm_xangle)
               T_LL = 11, T_ULL = 12,   // long long, unsigned long long: distinct integral types of the same width as (u)int64_t
               T_CHAR = 13,            // reserved, not instantiated: std::cmp_* rejects char in C++20, so char operands do not compile there (DESIGN section 7)
               T_CODES = 14 };
// integer <-> fixed entry points
enum fm_from_int_how { FI_CTOR, FI_INTEGRAL_TO_FIXED, FI_MAKE_FIXED, FI_COUNT };
enum fm_to_int_how { TI_FIXED_TO_INTEGRAL, TI_STATIC_CAST, TI_FIXED_TO_ARITHMETIC, TI_COUNT };
enum fm_from_fp_how { FF_CTOR, FF_FLOATING_POINT_TO_FIXED, FF_MAKE_FIXED, FF_COUNT };
enum fm_to_fp_how { TF_FIXED_TO_FLOATING_POINT, TF_STATIC_CAST, TF_COUNT };
// mixed operators
enum fm_mix_op { M_ADD, M_SUB, M_MUL, M_DIV, M_COUNT };
enum fm_mix_order { O_FIX_T, O_T_FIX, O_ASSIGN, O_COUNT };   // a op t, t op a, a op= t
enum fm_angle_fn { A_SIN, A_COS, A_TAN, A_COUNT };

// call-site shapes of + and - (C01)
enum fm_shape_kind { SH_VK, SH_KV, SH_SELF, SH_GUARD, SH_KIND_COUNT };
struct fm_shape_info {
  int op;        // B_ADD, B_SUB, B_ADDEQ, B_SUBEQ
  int kind;      // fm_shape_kind
  i64 k;         // the compile-time constant (VK: a op k, KV: k op a)
  int guard;     // SH_GUARD: index of the caller-side range test, see shim.cc
  int uses_b;    // 1 when the second run-time operand is read
};

#define FM_API_LIST(X) \
  X(i64,  fm_un,            (int op, i64 a)) \
  X(void, fm_un_range,      (int op, i64 start, size_t n, i64* out)) \
  X(void, fm_un_batch,      (int op, const i64* a, size_t n, i64* out)) \
  X(i64,  fm_bin,           (int op, i64 a, i64 b)) \
  X(i64,  fm_un_env,        (int op, i64 a, int errno_value)) \
  X(i64,  fm_bin_env,       (int op, i64 a, i64 b, int errno_value)) \
  X(void, fm_bin_row,       (int op, i64 a, const i64* b, size_t n, i64* out)) \
  X(void, fm_bin_batch,     (int op, const i64* a, const i64* b, size_t n, i64* out)) \
  X(i64,  fm_shift,         (int left, i64 a, int r)) \
  X(void, fm_shift_range,   (int left, i64 a, int r0, size_t n, i64* out)) \
  X(void, fm_shift_typed,   (int left, int ctype, i64 a, const i64* counts, size_t n, i64* out)) \
  X(i64,  fm_from_int,      (int how, int type, u64 bits)) \
  X(void, fm_from_int_range,(int how, int type, u64 start, size_t n, i64* out)) \
  X(u64,  fm_to_int,        (int how, int type, i64 a)) \
  X(void, fm_to_int_batch,  (int how, int type, const i64* a, size_t n, u64* out)) \
  X(i64,  fm_from_fp,       (int how, int type, u64 bits)) \
  X(void, fm_from_f32_range,(int how, uint32_t start, size_t n, i64* out)) \
  X(void, fm_from_fp_batch, (int how, int type, const u64* bits, size_t n, i64* out)) \
  X(u64,  fm_to_fp,         (int how, int type, i64 a)) \
  X(void, fm_to_fp_batch,   (int how, int type, const i64* a, size_t n, u64* out)) \
  X(void, fm_to_fp_range,   (int how, int type, i64 start, size_t n, u64* out)) \
  X(u64,  fm_mixed,         (int op, int type, int order, i64 a, u64 tbits)) \
  X(void, fm_mixed_col,     (int op, int type, int order, const i64* a, size_t n, u64 tbits, u64* out)) \
  X(i64,  fm_angle_to_radians, (int type, u64 bits)) \
  X(void, fm_angle_to_radians_range, (int type, u64 start, size_t n, i64* out)) \
  X(i64,  fm_xangle,        (int fn, int type, u64 bits)) \
  X(i64,  fm_angle_aprox,   (int cosine, int32_t angle)) \
  X(i64,  fm_angle_aprox_typed, (int cosine, int type, u64 bits)) \
  X(int,  fm_angle_constarg_count, (void)) \
  X(int32_t, fm_angle_constarg_value, (int idx)) \
  X(i64,  fm_angle_constarg, (int cosine, int idx)) \
  X(int,  fm_has_int128,    (void)) \
  X(i64,  fm_mixed128,      (int op, int is_unsigned, int order, i64 a, u64 hi, u64 lo)) \
  X(size_t, fm_stream,      (i64 a, char* buf, size_t cap)) \
  X(void, fm_angle_aprox_range, (int cosine, int32_t start, size_t n, i64* out)) \
  X(i64,  fm_table,         (int which, unsigned index)) \
  X(int,  fm_shape_count,   (void)) \
  X(void, fm_shape_get,     (int idx, struct fm_shape_info* out)) \
  X(i64,  fm_shape_call,    (int idx, i64 a, i64 b)) \
  X(void, fm_shape_batch,   (int idx, const i64* a, const i64* b, size_t n, i64* out)) \
  X(i64,  fm_un_constarg,   (int op, int ki)) \
  X(i64,  fm_bin_constarg,  (int op, int ki, int kj)) \
  X(i64,  fm_constarg_value,(int binary, int ki)) \
  X(int,  fm_constarg_count,(int binary)) \
  X(u64,  fm_un_cmpmask,    (int op, i64 a)) \
  X(u64,  fm_bin_cmpmask,   (int op, i64 a, i64 b)) \
  X(i64,  fm_cmpmask_const, (int i)) \
  X(i64,  fm_cmp_results,   (int un_op, int k, i64 a, i64 b)) \
  X(int,  fm_cmpmask_count, (void)) \
  X(void, fm_seq_conv,      (int type, i64 a, i64 b, u64* r1, u64* r2)) \
  X(void, fm_seq_un,        (int op, i64 a, i64 b, i64* r1, i64* r2)) \
  X(i64,  fm_seq_compound,  (int op1, int op2, i64 a, i64 b, i64 c)) \
  X(i64,  fm_early,         (int idx, int now)) \
  X(int,  fm_early_count,   (void)) \
  X(int,  fm_probe_sqrt_algo, (void)) \
  X(int,  fm_sqrt_constexpr_available, (void)) \
  X(const char*, fm_config, (void)) \
  X(u64,  fm_ub_count,      (void)) \
  X(const char*, fm_ub_last,(void)) \
  X(void, fm_ub_reset,      (void))

// fm_table 'which'
enum fm_table_which { TB_SIN_ANGLE, TB_COS_ANGLE, TB_TAN, TB_SQRT, TB_COUNT };
