// Own definitions of the UBSan callback entry points. The sanitized shim is compiled with
// -fsanitize=undefined,... -fsanitize-recover=all and linked WITHOUT the sanitizer runtime, so
// every UB event of the instrumented library code lands here: one callback per event, no
// per-site de-duplication (the stock runtime reports a source location only once).
#include <cstdint>
#include <cstdio>
#include <cstring>
#include "api.h"

namespace {
struct source_location { const char* file; uint32_t line; uint32_t column; };
thread_local u64 ub_count_tls = 0;
thread_local char ub_last_tls[320] = "";

void record(const char* kind, const void* data) noexcept
  {
  const source_location* loc = static_cast<const source_location*>(data);
  ++ub_count_tls;
  const char* f = (loc && loc->file) ? loc->file : "?";
  std::snprintf(ub_last_tls, sizeof ub_last_tls, "%s@%s:%u:%u", kind, f, loc ? loc->line : 0u, loc ? loc->column : 0u);
  }
}

#define FM_EXPORT extern "C" __attribute__((visibility("default")))
FM_EXPORT u64 fm_ub_count(void) { return ub_count_tls; }
FM_EXPORT const char* fm_ub_last(void) { return ub_last_tls; }
FM_EXPORT void fm_ub_reset(void) { ub_count_tls = 0; ub_last_tls[0] = 0; }

#define H1(name) extern "C" __attribute__((visibility("default"))) void __ubsan_handle_##name(void* d) { record(#name, d); }
#define H2(name) extern "C" __attribute__((visibility("default"))) void __ubsan_handle_##name(void* d, void*) { record(#name, d); }
#define H3(name) extern "C" __attribute__((visibility("default"))) void __ubsan_handle_##name(void* d, void*, void*) { record(#name, d); }
#define H4(name) extern "C" __attribute__((visibility("default"))) void __ubsan_handle_##name(void* d, void*, void*, void*) { record(#name, d); }

H3(add_overflow) H3(sub_overflow) H3(mul_overflow) H3(divrem_overflow) H3(shift_out_of_bounds)
H2(negate_overflow) H2(out_of_bounds) H2(load_invalid_value) H2(vla_bound_not_positive) H2(type_mismatch_v1)
H2(float_cast_overflow) H3(pointer_overflow) H1(builtin_unreachable) H1(missing_return) H1(nonnull_arg)
H2(nonnull_return_v1) H1(nullability_arg) H2(nullability_return_v1) H1(invalid_builtin)
H4(alignment_assumption) H3(implicit_conversion) H2(function_type_mismatch) H1(invalid_objc_cast)
