#!/bin/bash
# Re-demonstrate detection: apply every seeded change to a scratch COPY of /repo's library (never to /repo),
# run the quick check of the property it was written against with evidence/replays redirected, expect exit 1.
# usage: tools/selftest.sh [<seeded dir name> ...]      (default: all)
cd "$(dirname "$0")/.."
root=/tmp/fm_selftest
names=("$@"); [ ${#names[@]} -eq 0 ] && names=($(cd seeded && ls -d C*-*/ | tr -d /))
fail=0
for n in "${names[@]}"; do
  prop=${n%%-*}
  t=$root/$n; rm -rf "$t"; mkdir -p "$t"
  cp -r /repo/fixed_lib "$t/fixed_lib"
  if ! (cd "$t" && patch -s -p1 < /verif/seeded/$n/patch.diff); then echo "$n: patch does not apply to the current tree"; fail=1; rm -rf "$t"; continue; fi
  tier=quick
  # a change that is reported by a neighbouring property, or by the thorough tier only (DESIGN.md section 6b): meta.json says which
  by=$(sed -n 's/.*"reported_by_instead": "\([^"]*\)".*/\1/p' seeded/$n/meta.json | head -1)
  if [ -n "$by" ]; then case "$by" in thorough:*) tier=thorough; prop=${by#thorough:};; *) prop=$by;; esac; fi
  FM_REPO=$t FM_EVIDENCE=$t/evidence FM_REPLAYS=$t/replays ./fmcheck run $prop --tier $tier > "$t/out.txt" 2>&1; rc=$?
  v=$(grep -c '^VIOLATION' "$t/out.txt")
  if grep -q '"expected": "silent"' seeded/$n/meta.json; then
    # a change that was judged NOT to violate the property as stated: the check must stay silent
    if [ $rc -eq 0 ]; then echo "$n: silent as expected (not a violation of $prop as stated)"; else echo "$n: UNEXPECTED exit $rc"; fail=1; fi
    rm -rf "$t"; continue
  fi
  if [ $rc -eq 1 ] && [ "$v" -gt 0 ]; then echo "$n: detected by $prop ($(grep -m1 '^  class' "$t/out.txt" | cut -c3-120))"; else echo "$n: NOT DETECTED by $prop (exit $rc)"; fail=1; fi
  rm -rf "$t"
done
rmdir $root 2>/dev/null
exit $fail
