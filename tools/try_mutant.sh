#!/bin/bash
# usage: try_mutant.sh <patch.diff> <tier> <prop> [<prop>...]   -- apply to /repo, run the checks, always revert
patch="$1"; tier="$2"; shift 2
cd /verif
if ! git -C /repo diff --quiet; then echo "/repo has uncommitted changes"; exit 2; fi
git -C /repo apply "$patch" || { echo "patch does not apply"; exit 2; }
for p in "$@"; do
  ./fmcheck run $p --tier $tier > /tmp/try_mutant.$$.out 2>&1; rc=$?
  nv=$(grep -c '^VIOLATION' /tmp/try_mutant.$$.out)
  echo "== $p exit=$rc violations_lines=$nv"
  grep -E '^  class' /tmp/try_mutant.$$.out | cut -c1-260 | head -4
  grep -E 'INTERNAL' /tmp/try_mutant.$$.out | head -3
done
rm -f /tmp/try_mutant.$$.out
git -C /repo checkout -- .
