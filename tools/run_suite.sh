#!/bin/bash
# usage: run_suite.sh <worktree>  -- configures, builds and runs the 39 ctest compile-tests of the given tree
set -e
wt="$1"
cmake -G Ninja -S "$wt" -B "$wt/_build" -DCMAKE_BUILD_TYPE=RelWithDebInfo -DFIXEDMATH_ENABLE_UNIT_TESTS=ON >/dev/null
cmake --build "$wt/_build" 2>&1 | tail -3
ctest --test-dir "$wt/_build" -j8 --timeout 900 2>&1 | tail -5
