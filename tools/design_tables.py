#!/usr/bin/env python3
"""Refresh the measured numbers in DESIGN.md from the evidence files: the last column of the section-5 table (quick tier)
and the thorough-tier table of section 8."""
import json, re, os, glob
root = os.path.dirname(os.path.dirname(os.path.abspath(__file__)))
s = open(os.path.join(root, "DESIGN.md")).read()
def sci(x):
    e = len(str(int(x))) - 1
    return f"{x / 10**e:.1f}·10^{e}"
for f in sorted(glob.glob(os.path.join(root, "evidence", "C*.json"))):
    ev = json.load(open(f))
    if ev["tier"] != "quick":
        continue
    pid = ev["property_id"]
    st = ev["coverage"]["states"]; w = ev["wall_s"]; nc = len(ev["coverage"].get("configs", [])) + len(ev["coverage"].get("sanitized_configs", []))
    # row starts with "| C01 |" and ends with "| <states> / <wall> s |"
    s, n = re.subn(r"(^\| %s \|.*\| )[^|]*( \|)$" % pid, lambda m: m.group(1) + f"{sci(st)} / {w:.0f} s ({nc} cfgs)" + m.group(2), s, flags=re.M)
    if n not in (1, 2):      # the thorough table of section 8 has a row with the same id; it is regenerated below
        print("row not found for", pid)
rows = []
for f in sorted(glob.glob(os.path.join(root, "evidence", "thorough", "C*.json"))):
    ev = json.load(open(f))
    rows.append((ev["property_id"], ev["coverage"]["states"], len(ev["coverage"].get("configs", [])), len(ev["coverage"].get("sanitized_configs", [])), ev["wall_s"], ev["coverage"]["exhaustive"], ev.get("violations", 0)))
t = "| id | states | configurations (normal+sanitized) | wall | bound completed | violations |\n|---|---|---|---|---|---|\n"
for r in rows:
    t += f"| {r[0]} | {float(r[1]):.2e} | {r[2]}+{r[3]} | {r[4]:.0f} s | {'yes' if r[5] else 'NO (cap hit)'} | {r[6]} |\n"
a = s.index("| id | states | configurations (normal+sanitized) | wall |")
b = s.index("\n\n", a)
s = s[:a] + t.rstrip("\n") + s[b:]
open(os.path.join(root, "DESIGN.md"), "w").write(s)
print("DESIGN.md tables refreshed:", len(rows), "thorough rows")
