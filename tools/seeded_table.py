#!/usr/bin/env python3
"""Regenerate the big table of section 6b of DESIGN.md from seeded/<id>-<n>/meta.json and notes.md."""
import json, os, re, glob
root = os.path.dirname(os.path.dirname(os.path.abspath(__file__)))
rows = []
def key(d):
    m = re.match(r"C(\d+)-(\d+)$", os.path.basename(d)); return (int(m.group(1)), int(m.group(2)))
for d in sorted([x for x in glob.glob(os.path.join(root, "seeded", "C*-*")) if os.path.isdir(x)], key=key):
    name = os.path.basename(d)
    meta = json.load(open(os.path.join(d, "meta.json")))
    title = ""
    if os.path.exists(os.path.join(d, "notes.md")):
        for ln in open(os.path.join(d, "notes.md")):
            if ln.strip():
                title = ln.strip().lstrip("# ").strip(); break
    title = title.replace("|", "/")[:150]
    res = meta.get("checks_run", {}).get("results", {})
    det, silent = [], []
    for p, r in res.items():
        if r.get("exit") == 1 and r.get("violation_lines", 0) > 0:
            m = re.search(r"class (\S+)", (r.get("first_classes") or [""])[0])
            det.append(f"{p} ({m.group(1)})" if m else p)
        else:
            silent.append(p)
    if meta.get("expected") == "silent":
        det = ["– (not a violation of the stated property, see below)"]
    rows.append(f"| {name} | {title} | {', '.join(det) or 'NOT REPORTED'} | {', '.join(silent) or '–'} |")
s = open(os.path.join(root, "DESIGN.md")).read()
head = "| seeded change | what it does (first line of the author's notes) | detected by (quick tier; first class) | also run, silent |\n|---|---|---|---|\n"
a = s.index(head); b = s.index("\n\n", a)
s = s[:a] + head + "\n".join(rows) + s[b:]
open(os.path.join(root, "DESIGN.md"), "w").write(s)
print(len(rows), "rows;", sum("NOT REPORTED" in r for r in rows), "not reported")
