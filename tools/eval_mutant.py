#!/usr/bin/env python3
"""eval_mutant.py <ID> <n> <tier> <prop> [<prop>...]
Confirm a sub-agent's seeded change independently (applies, suite passes, demo fails with / passes without),
run the named checks against it in /repo, always revert, and store everything under /verif/seeded/<ID>-<n>/."""
import sys, os, subprocess, json, shutil, re, time
ID, n, tier = sys.argv[1], sys.argv[2], sys.argv[3]
props = sys.argv[4:]
ROOT = os.environ.get("MUT_ROOT", "/tmp/mut")
OFF = int(os.environ.get("SEED_OFFSET", "0"))
os.makedirs("/tmp/mut", exist_ok=True)      # scratch (worktree for the independent confirmation, demo binaries): outside /repo and /verif
src = f"{ROOT}/{ID}/out/{n}"
patch = f"{src}/patch.diff"
wt = f"/tmp/mut/confirm-{ID}-{int(n)+OFF}"
def sh(cmd, **kw):
    return subprocess.run(cmd, shell=True, stdout=subprocess.PIPE, stderr=subprocess.STDOUT, text=True, **kw)
meta = {"seeded_for": ID, "variant": int(n) + OFF, "checked_at": time.strftime("%Y-%m-%d %H:%M:%S"), "repo_head": sh("git -C /repo rev-parse --short HEAD").stdout.strip()}
sh(f"git -C /repo worktree remove --force {wt}")
r = sh(f"git -C /repo worktree add --detach {wt} HEAD")
try:
    a = sh(f"git -C {wt} apply {patch}")
    how = "git apply"
    if a.returncode != 0:
        a = sh(f"git -C {wt} apply --3way {patch}")
        how = "git apply --3way"
    meta["applies"] = a.returncode == 0; meta["apply_how"] = how
    if a.returncode != 0:
        print("PATCH DOES NOT APPLY:", a.stdout[-500:]); sys.exit(3)
    # a diff of the applied state against HEAD is what we store (so it applies to the current /repo)
    diff = sh(f"git -C {wt} diff HEAD").stdout
    s = sh(f"{os.path.dirname(os.path.abspath(__file__))}/run_suite.sh {wt}")
    meta["suite_with_change"] = "100% tests passed" in s.stdout
    meta["suite_tail"] = s.stdout.strip().splitlines()[-3:]
    # demo
    def build_run(tree, tag):
        exe = f"/tmp/mut/confirm-demo-{ID}-{n}-{tag}"
        base = f"g++ -std=c++17 -O2 -w -I{tree}/fixed_lib/include {src}/demo.cc -o {exe}"
        notes = open(f"{src}/notes.md").read() if os.path.exists(f"{src}/notes.md") else ""
        m = re.search(r"((?:g\+\+|clang\+\+)[^\n`]*demo\.cc[^\n`&]*)", notes)
        cmd = base
        if m:
            c = m.group(1)
            c = re.sub(r"/tmp/mut\d*/%s/wt" % ID, tree, c)
            c = re.sub(r"-o\s+\S+", f"-o {exe}", c); c = c.replace("clang++-14", "clang++").replace("g++-12", "g++")
            if "-o " not in c: c += f" -o {exe}"
            cmd = c + " -w"
        b = sh(cmd, cwd=src)
        if b.returncode != 0:
            b = sh(base + f" {tree}/fixed_lib/src/fixed_math.cc")
            cmd = base + " fixed_math.cc"
        if b.returncode != 0:
            return None, "build failed: " + b.stdout[-400:], cmd
        rr = sh(exe, timeout=600)
        os.remove(exe)
        return rr.returncode, rr.stdout[-600:], cmd
    rc_with, out_with, cmd = build_run(wt, "with")
    sh(f"git -C {wt} checkout -- . && git -C {wt} clean -fdq")
    rc_without, out_without, _ = build_run(wt, "without")
    meta["demo_cmd"] = cmd
    meta["demo_exit_with_change"] = rc_with; meta["demo_exit_without_change"] = rc_without
    meta["demo_output_with_change"] = out_with.strip().splitlines()[-6:]
finally:
    sh(f"rm -rf {wt}/_build"); sh(f"git -C /repo worktree remove --force {wt}")
confirmed = meta.get("suite_with_change") and meta.get("demo_exit_with_change") not in (0, None) and meta.get("demo_exit_without_change") == 0
meta["confirmed"] = bool(confirmed)
# run the checks against /repo
results = {}
if sh("git -C /repo diff --quiet").returncode != 0:
    print("/repo dirty"); sys.exit(2)
open("/tmp/mut/_cur.diff", "w").write(diff)
ap = sh("git -C /repo apply /tmp/mut/_cur.diff")
try:
    for p in props:
        t0 = time.time()
        rr = sh(f"cd /verif && ./fmcheck run {p} --tier {tier}")
        viol = [l for l in rr.stdout.splitlines() if l.startswith("VIOLATION")]
        cls = [l.strip()[:300] for l in rr.stdout.splitlines() if l.startswith("  class")]
        results[p] = {"exit": rr.returncode, "violation_lines": len(viol), "first_classes": cls[:3], "wall_s": round(time.time() - t0, 1), "internal": [l for l in rr.stdout.splitlines() if "INTERNAL" in l][:2]}
finally:
    sh("git -C /repo checkout -- .")
meta["checks_run"] = {"tier": tier, "results": results}
meta["detected_by"] = [p for p, r in results.items() if r["exit"] == 1 and r["violation_lines"] > 0]
dst = f"/verif/seeded/{ID}-{int(n)+OFF}"
os.makedirs(dst, exist_ok=True)
open(f"{dst}/patch.diff", "w").write(diff)
for f in ("demo.cc", "notes.md"):
    if os.path.exists(f"{src}/{f}"): shutil.copy(f"{src}/{f}", f"{dst}/{f}")
prop = json.loads([l for l in open("/verif/properties.jsonl") if json.loads(l)["id"] == ID][0])
meta["breaks_property"] = ID; meta["property_title"] = prop["title"]
if os.path.exists(f"{src}/notes.md"):    # what the change does and what it needs in order to manifest, in the author's words
    _l = [x.strip() for x in open(f"{src}/notes.md").read().splitlines() if x.strip()]
    meta["what_it_does"] = _l[0].lstrip("# ").strip() if _l else ""
    _s = re.split(r"(?<=[.;])\s+", " ".join(_l[1:]))
    _p = [x for x in _s if re.search(r"trigger|need|only|when|wrong for|fails|affected|band|input", x, re.I)][:3] or _s[:3]
    meta["needs_to_manifest"] = re.sub(r"\s+", " ", " ".join(_p))[:500] or "see notes.md"
json.dump(meta, open(f"{dst}/meta.json", "w"), indent=1)
print(f"{ID}-{int(n)+OFF}: applies={meta['applies']} suite={meta['suite_with_change']} demo_with={meta['demo_exit_with_change']} demo_without={meta['demo_exit_without_change']} confirmed={meta['confirmed']} detected_by={meta['detected_by']}")
for p, r in results.items():
    print("   ", p, r["exit"], r["violation_lines"], r["wall_s"], (r["first_classes"] or r["internal"] or [""])[0][:220])
